"""CANVAS (extra engine) -- the pure parts of tools/rect/canvas.py (+ rect_io.getfile).

(1) Line clipping (dashed_line_implementation, "Cohen-Sutherland Algorithm for line clipping").  Clip.tla transcribes
    it action by action (PointTest, OutCodes, TrivialAccept, TrivialReject, ClipEndpoint, Magnitude) with exact
    rationals; TLC model-checks on every segment of a small lattice x several windows that what is drawn is exactly
    (segment /\\ window) (inside, on the segment, equal to the Liang-Barsky intersection, independent of the end-point
    order, nothing iff the segment misses the window, at most four clip steps), shows with two must-fail
    configurations that the two places where the code departs from this are rejected, and emits every (window, segment).
    The driver calls the real Canvas.line(..., line_type="dashed") on a Canvas whose _draw_simple_line is recorded
    (narrowest callable path: the clipping is not a function of its own), with a thickness so large that the dash
    pattern is ONE dash = the clipped segment; the recorded end points are pulled back to rationals and judged by TLC.
(2) CanvasOps.tla: Canvas.interpolate (corners -> corners, affine, monotone), rgb / hex_breakdown / color_mix
    (format, value, round trip, end points of the mix, rounding, channel range); solid lines through a recording
    ImageDraw stub; rect_io.getfile parsed back.

Eight float embeddings for everything that has coordinates; a seeded random driver adds larger windows / segments.
Known departures of the code are labelled by TLC itself (feature `explained_by`: the observation equals exactly what
Clip!Drawn gives with DEFECTS = {"y2x"} / {"pointtest"} / both) for the known-finding matcher.
"""
from __future__ import annotations

import json
import random
import re
import signal
from fractions import Fraction as F

from ..core import Ctx, MachineryError, digest
from ..forkpool import prepare_imports, run_cases
from ..lattice import ALL, EMBEDDINGS, EXACT, OffLattice
from .. import tlc

THICK = 1e12          # inc = thickness * 0.1 / magnitude >= 1: a single dash from the clipped p1 to the clipped p2
CHUNK = 60            # events per trace
EVENT_CPU = 0.05      # CPU seconds (ITIMER_VIRTUAL, immune to a loaded machine) for one call that normally takes
                      # microseconds; the clipping loop has no iteration bound of its own


class _Hang(Exception):
    pass


def _rat(v, emb=None):
    """float -> [num, den] (den > 0) of the nearest small rational, in lattice units when emb is given (total)."""
    try:
        f = float(v)
    except (TypeError, ValueError):
        raise OffLattice(f"not a number: {v!r}")
    if f != f or f in (float("inf"), float("-inf")):
        raise OffLattice(f"non-finite value {v!r}")
    q = F(f)
    if emb is not None:
        q = (q - emb.off) / emb.step
    r = q.limit_denominator(2000)
    if abs(q - r) > F(1, 10 ** 6):
        raise OffLattice(f"{v!r} is not a small rational of the lattice")
    return [r.numerator, r.denominator]


def _canvas(size):
    from tools.rect.canvas import Canvas
    return Canvas(int(size[0]), int(size[1]))


def _timed(fn):
    """run fn() under a small budget of the worker's own CPU time"""
    def handler(_s, _f):
        raise _Hang()
    old = signal.signal(signal.SIGVTALRM, handler)
    signal.setitimer(signal.ITIMER_VIRTUAL, EVENT_CPU)
    try:
        return fn()
    finally:
        signal.setitimer(signal.ITIMER_VIRTUAL, 0)
        signal.signal(signal.SIGVTALRM, old)


def _one(ev, emb, cache):
    """One event on the real code -> the event with its observation, or {... "exc"/"off"/"hang": ..}."""
    k = ev["kind"]
    out = dict(ev)
    if k in ("clip", "solid", "interp"):
        size = tuple(ev.get("size", (8, 8)))
        cv = cache.get(size)
        if cv is None:
            cv = cache[size] = _canvas(size)
        w = [emb.coord(v) for v in ev["window"]]
        cv.set_coords(*w)
    if k == "clip":
        rec = []
        cv.__dict__["_draw_simple_line"] = lambda line, color="#000000", width=2: rec.append(line)
        s = [emb.coord(v) for v in ev["seg"]]
        out["calls"], out["offl"], out["r"] = 0, 0, []
        try:
            _timed(lambda: cv.line(((s[0], s[1]), (s[2], s[3])), "#000000", THICK, "dashed"))
            out["calls"] = len(rec)
            if rec:
                try:
                    out["r"] = [[_rat(rec[0][0][0], emb), _rat(rec[0][0][1], emb)],
                                [_rat(rec[-1][1][0], emb), _rat(rec[-1][1][1], emb)]]
                except OffLattice as e:        # judged by TLC (clause clip_on_lattice), like every other clip observation
                    out["offl"], out["raw"] = 1, str(e)
        except _Hang:                          # judged by TLC (clause clip_terminates)
            out["calls"] = -1
        finally:
            del cv.__dict__["_draw_simple_line"]
    elif k == "solid":
        rec = []

        class Stub:
            def line(self, xy, fill=None, width=0, joint=None):
                rec.append(xy)

            def rectangle(self, *a, **kw):
                pass
        real = cv.context
        cv.context = Stub()
        s = [emb.coord(v) for v in ev["seg"]]
        try:
            cv.line(((s[0], s[1]), (s[2], s[3])), "#000000", 2, "solid")
        finally:
            cv.context = real
        out["pts"] = [[[ev["seg"][0], 1], [ev["seg"][1], 1]], [[ev["seg"][2], 1], [ev["seg"][3], 1]]]
        out["obs"] = [[_rat(p[0]), _rat(p[1])] for xy in rec for p in xy]
    elif k == "interp":
        obs = []
        for p in ev["pts"]:
            x, y = cv.interpolate((emb.coord(F(*p[0])), emb.coord(F(*p[1]))))
            obs.append([_rat(x), _rat(y)])
        out["obs"] = obs
    elif k == "rgb":
        from tools.rect.canvas import rgb, Canvas
        s = rgb(*ev["c"])
        out["hash"], out["d"] = _digits(s)
        back = Canvas.hex_breakdown(s)
        out["back"] = [int(v) for v in back]
    elif k == "mix":
        from tools.rect.canvas import color_mix
        p = ev["p"][0] / ev["p"][1]
        out["hash"], out["d"] = _digits(color_mix(tuple(ev["c1"]), tuple(ev["c2"]), p))
    elif k == "hex":
        from tools.rect.canvas import Canvas
        txt = "".join("0123456789abcdef"[v] for v in ev["d"])
        txt = ("#" if ev["form"] & 1 else "") + (txt.upper() if ev["form"] & 2 else txt)
        out["out"] = [int(v) for v in Canvas.hex_breakdown(txt)]
    elif k == "getfile":
        from tools.rect.rect_io import getfile
        cells = [(emb.coord(c[0]), emb.coord(c[1]), emb.coord(c[2]), emb.coord(c[3]), c[4] / ev["den"]) for c in ev["cells"]]
        txt = getfile(cells, {"Width": emb.length(ev["w"]), "Height": emb.length(ev["h"])}, ev["f"] / 1.0)
        lines = txt.strip("\n").split("\n")
        h = lines[0].split()
        out["header"] = [emb.back_length(float(h[0])), emb.back_length(float(h[1])), int(h[2])]
        out["fout"] = int(float(lines[1])) if float(lines[1]).is_integer() else -1
        rows = []
        for ln in lines[2:]:
            a = [float(x) for x in ln.split()]
            q = a[4] * ev["den"]
            if abs(q - round(q)) > 1e-9:
                raise OffLattice(f"occupancy {a[4]!r}")
            rows.append([emb.back_coord(a[0]), emb.back_coord(a[1]), emb.back_coord(a[2]), emb.back_coord(a[3]), int(round(q))])
        out["rows"] = rows
    else:
        raise ValueError(k)
    return out


def _digits(s):
    """'#1a2b3c' -> (1, [1, 10, 2, 11, 3, 12]); anything that is not hex digits gives digit -1"""
    if not isinstance(s, str):
        return 0, [-1]
    h = int(s.startswith("#"))
    body = s[1:] if h else s
    return h, [int(ch, 16) if re.fullmatch(r"[0-9a-fA-F]", ch) else -1 for ch in body] or [-1]


def run_batch(case):
    """case: {emb, events} -> list of observed events (same order)"""
    emb = EMBEDDINGS[case["emb"]]
    cache, res = {}, []
    for ev in case["events"]:
        try:
            res.append(_one(ev, emb, cache))
        except OffLattice as e:
            res.append(dict(ev, off=str(e)))
        except _Hang:
            cache.clear()
            res.append(dict(ev, hang=1))
        except Exception as e:  # every event is inside the documented domain of the function it calls
            res.append(dict(ev, exc=f"{type(e).__name__}: {e}"[:200]))
    return res


# ------------------------------------------------------------------------------------------------ cases
def _pts_of(rec):
    w = rec["arg"]["window"]
    corners = [[[w[0], 1], [w[1], 1]], [[w[2], 1], [w[3], 1]]]
    rest = [p for p in rec["pts"] if p not in corners]
    return corners + rest


def coord_events(clip_gen, ops_gen, rng, tier):
    """events that depend on the embedding"""
    # ties = 1: some computed crossing lands exactly on a window line (decided by the last bit under an inexact
    # embedding): replayed under the exact embeddings only
    evs = [{"kind": "clip", "window": g["window"], "seg": g["seg"], "exact_only": g["ties"]} for g in clip_gen]
    wins = sorted({tuple(g["window"]) for g in clip_gen})
    for w in wins:
        for size in ((8, 8), (12, 5)):
            for _ in range(12):
                evs.append({"kind": "solid", "window": list(w), "size": list(size),
                            "seg": [rng.randint(-2, 9) for _ in range(4)]})
    for g in ops_gen:
        if g["kind"] == "interp":
            evs.append({"kind": "interp", "window": g["arg"]["window"], "size": g["arg"]["size"], "pts": _pts_of(g)})
    for (nx, ny, ox, oy) in ((2, 2, 0, 0), (3, 2, 5, 2), (1, 4, 0, 3)):
        cells = [[ox + i, oy + j, ox + i + 1, oy + j + 1, (i + 2 * j) % 3] for j in range(ny) for i in range(nx)]
        evs.append({"kind": "getfile", "cells": cells, "den": 2, "w": nx, "h": ny, "f": 2})
    # random driver: larger windows / segments than TLC enumerates (also far outside, through corners, on borders)
    for _ in range(300 if tier == "quick" else 3000):
        x0, x1 = rng.sample(range(0, 17), 2)       # all coordinates within -4..20 (Clip!Wild, 32-bit integers)
        y0, y1 = rng.sample(range(0, 17), 2)
        mode = rng.randrange(4)
        if mode == 0:
            s = [rng.randint(-4, 20) for _ in range(4)]
        elif mode == 1:      # through a corner of the window
            cx, cy = rng.choice([x0, x1]), rng.choice([y0, y1])
            dx, dy = rng.randint(-2, 2), rng.randint(-2, 2)
            s = [cx - dx, cy - dy, cx + 2 * dx, cy + 2 * dy]
        elif mode == 2:      # on a border line of the window
            if rng.random() < 0.5:
                yy = rng.choice([y0, y1]); s = [rng.randint(-4, 20), yy, rng.randint(-4, 20), yy]
            else:
                xx = rng.choice([x0, x1]); s = [xx, rng.randint(-4, 20), xx, rng.randint(-4, 20)]
        else:                # both ends outside, crossing or missing diagonally
            s = [min(x0, x1) - rng.randint(1, 4), rng.randint(-4, 20), max(x0, x1) + rng.randint(1, 4), rng.randint(-4, 20)]
        evs.append({"kind": "clip", "window": [x0, y0, x1, y1], "seg": s, "random": 1, "exact_only": 1})
    return evs


def colour_events(ops_gen):
    evs = []
    for g in ops_gen:
        if g["kind"] == "rgb":
            evs.append({"kind": "rgb", "c": g["arg"]})
        elif g["kind"] == "mix":
            evs.append({"kind": "mix", "c1": g["arg"][0], "c2": g["arg"][1], "p": g["arg"][2]})
        elif g["kind"] == "hex":
            for form in range(4):    # with / without '#', lower / upper case
                evs.append({"kind": "hex", "d": g["arg"], "form": form})
    return evs


# ------------------------------------------------------------------------------------------------ judging
KEEP = {"clip": ("window", "seg", "r", "calls", "offl"), "solid": ("window", "size", "pts", "obs"),
        "interp": ("window", "size", "pts", "obs"), "rgb": ("c", "hash", "d", "back"),
        "mix": ("c1", "c2", "p", "hash", "d"), "hex": ("d", "out"),
        "getfile": ("cells", "w", "h", "f", "header", "fout", "rows")}


def decide(ctx: Ctx, batches: list[dict]):
    prepare_imports()
    import matplotlib  # noqa: F401
    import tools.rect.canvas  # noqa: F401
    import tools.rect.rect_io  # noqa: F401
    results = run_cases(run_batch, batches, nproc=16, case_timeout=600)
    pool, owners = {}, {}
    for b, (st, obs) in zip(batches, results):
        if st != "ok":
            ctx.violation("no_result", {"emb": b["emb"], "events": b["events"][:3]}, {"status": st}, {"clause": "no_result", "embedding": b["emb"]})
            continue
        for ev, o in zip(b["events"], obs):
            ctx.count()
            bad = "raises" if "exc" in o else "off_lattice" if "off" in o else "no_result" if "hang" in o else None
            if bad:
                ctx.violation(bad, {"emb": b["emb"], "event": ev}, {k: o[k] for k in ("exc", "off", "hang") if k in o},
                              {"clause": bad, "kind": ev["kind"], "embedding": b["emb"], "explained_by": "none"})
                continue
            t = {"kind": o["kind"], **{k: o[k] for k in KEEP[o["kind"]]}}
            key = digest(t)
            pool.setdefault(key, t)
            owners.setdefault(key, []).append((b["emb"], ev))
    keys = sorted(pool)
    traces = []
    for i in range(0, len(keys), CHUNK):
        part = keys[i:i + CHUNK]
        traces.append({"id": digest(part), "events": [pool[k] for k in part], "keys": part})
    verdicts = tlc.validate_traces(ctx, "CanvasTrace", "CanvasTrace",
                                   [{"id": t["id"], "events": t["events"]} for t in traces], chunk=400)
    by_id = {t["id"]: t for t in traces}
    explained = {}
    for tid, v in verdicts.items():
        t = by_id[tid]
        expl = {i["l"]: i["explained_by"] for i in v.get("info", [])}
        for j, k in enumerate(t["keys"]):
            ev = pool[k]
            nontrivial = not (ev["kind"] == "clip" and ev["r"] == [] and ev["calls"] == 0)
            ctx.count(k, nontrivial=nontrivial, n=0)
        for (l, clause) in v["fails"]:
            k = t["keys"][l - 1]
            ev = pool[k]
            e = expl.get(l, "none") if ev["kind"] == "clip" else "none"
            explained[e] = explained.get(e, 0) + 1
            for emb, src in owners[k]:
                ctx.violation(clause, {"emb": emb, "event": src}, {"observed": {x: ev[x] for x in KEEP[ev["kind"]] if x not in ("window", "seg", "pts", "cells")}},
                              {"clause": clause, "kind": ev["kind"], "embedding": emb, "explained_by": e})
        for (l, what) in v["drift"]:
            ctx.model_drift(f"{what}: observed value differs from the model's (property clauses hold)")
    for t in traces[:3]:
        ctx.sample({"events": t["events"][:2]})
    kinds = {}
    for k in keys:
        kinds[pool[k]["kind"]] = kinds.get(pool[k]["kind"], 0) + 1
    ctx.extra["distinct_observations_by_kind"] = kinds
    ctx.extra["clip_drawn"] = sum(1 for k in keys if pool[k]["kind"] == "clip" and pool[k]["r"])
    ctx.extra["clip_nothing"] = sum(1 for k in keys if pool[k]["kind"] == "clip" and not pool[k]["r"])
    ctx.extra["failing_clause_instances_explained_by"] = explained


def _batches(coord, colour):
    out = []
    for en in ALL:
        evs = [e for e in coord if en in EXACT or not e.get("exact_only")]
        for i in range(0, len(evs), 500):
            out.append({"emb": en, "events": evs[i:i + 500]})
    for i in range(0, len(colour), 500):
        out.append({"emb": "int", "events": colour[i:i + 500]})
    return out


def run(ctx: Ctx) -> int:
    if ctx.replay:
        rec = json.load(open(ctx.replay))
        c = rec["case"]
        decide(ctx, [{"emb": c["emb"], "events": [c["event"]]}])
        return ctx.finish("model_checking", "replay of one recorded event")
    tier = ctx.tier
    tlc.model_check(ctx, "Clip", f"Clip_mc_{tier}", vacuity_ignore=("Emit",))
    tlc.model_check(ctx, "CanvasOps", f"CanvasOps_mc_{tier}", vacuity_ignore=("CEmit",))
    for cfg in ("Clip_mustfail_y2x", "Clip_mustfail_pointtest"):
        neg = tlc.run_tlc(ctx, "Clip", cfg, expect_ok=False, tag="negative")
        if not re.search(r"Invariant \w+ is violated", neg["stdout"]):
            raise MachineryError(f"{cfg}: TLC did not find the expected invariant violation "
                                 "(the specification no longer rejects this departure of the code)")
    clip_gen = tlc.generate(ctx, "Clip", f"Clip_gen_{tier}")
    ops_gen = tlc.generate(ctx, "CanvasOps", f"CanvasOps_gen_{tier}")
    rng = random.Random(ctx.seed * 1000003 + 77)
    coord = coord_events(clip_gen, ops_gen, rng, tier)
    colour = colour_events(ops_gen)
    decide(ctx, _batches(coord, colour))
    ctx.extra["embeddings"] = ALL
    ctx.extra["cases_from_tlc"] = len(clip_gen) + len(ops_gen)
    ctx.assumptions += [
        "float dimension sampled by 8 embeddings of the integer lattice (steps 1, 1.0, 1/2, 1/10, 1/3, 1e3, 1e-3, 0.1+37.3), not enumerated; observed floats are pulled back to the nearest rational with denominator <= 2000 (1e-6 lattice units)",
        "clip cases in which a computed crossing lands exactly on a window line (corner crossings; flag `ties` computed by TLC) and the random clip cases are replayed under the exact embeddings (int, flt, half, big) only: under an inexact embedding the last bit decides such ties; a dash whose end points coincide on the lattice counts as nothing drawn",
        "the clipped segment is observed as the single dash drawn with thickness 1e12 (recorded _draw_simple_line); the dash PATTERN of finite thickness and every pixel-level effect of PIL are not examined",
        "clauses are derived from the docstrings / comments / usage of canvas.py (see CanvasOps.tla and Clip.tla headers), there is no separate property statement",
        "draw_text (needs fonts), dots / ellipses, show/save are not examined",
    ]
    return ctx.finish(
        "model_checking",
        "TLC enumerates every (window, segment) of the lattice and every argument of the coordinate map / colour helpers; "
        "evaluations = calls of the real code (event x embedding); distinct = distinct pulled-back observations judged by TLC; "
        "non-trivial = everything but clip events where nothing is drawn",
        exhaustive=False)
