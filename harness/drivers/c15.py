"""C15 -- Grid orthogon decomposition finds exactly the single-trunk decompositions.

TLC (Strop) draws every 0/1 grid up to the bound cell by cell, proves on all of them that the declarative
definition (a trunk plus an exact cover of the other cells by abutting rectangles), the shadow/histogram
characterisation and the specified algorithm (prime trunks by rows and columns, empty corners, cell count test)
agree and that every instance is a partition into trunk + abutting branches, and emits every grid.

The harness runs, for every emitted grid, the real Strop(matrix): is_strop and the rectangles() of every
instances() entry.  Every grid that is one simple polygon (all single-trunk orthogons are; the other simple
ones are the negative cases) is traced into a vertex list -- both orientations, two start vertices, Point list
and numpy rows, uniform and non-uniform line spacing, all float embeddings -- and handed to
strop_decomposition; the returned rectangles are written as a module of a YAML netlist and loaded by Netlist.
Everything observed is pulled back to integers and judged by TLC (StropTrace): exists / partition / abut for
grids, exists / area (shoelace) / recognised (definitions of module Stog, C06) for polygons.  A seeded random
driver adds grids up to 8x8 (orthogons built from random histograms, their one-cell perturbations, noise).
"""
from __future__ import annotations

import json
import random

from ..core import Ctx, MachineryError, digest
from ..forkpool import prepare_imports, run_cases
from ..lattice import ALL as _ALL8, EMBEDDINGS, OffLattice
ALL = list(_ALL8) + ["mega"]        # + step 1234567.8: large inexact coordinates through strop_decomposition and Netlist
from .. import tlc

ROLE = {"TRUNK": "T", "NORTH": "N", "SOUTH": "S", "EAST": "E", "WEST": "W", "NO_POLYGON": "X"}
GRIDS_PER_TRACE = 40
EVENTS_PER_ROUND = 40000


# ----------------------------------------------------------------------------------------- input building
def trace_outline(grid):
    """The outline of the cells of `grid` (rows top first) as ONE counter-clockwise loop of index vertices
    (ix, iy), iy counted from the bottom line; None when the cells are not one simple polygon (several pieces,
    a hole, or two cells meeting only at a corner)."""
    nr, nc = len(grid), len(grid[0])

    def on(r, c):
        return 0 <= r < nr and 0 <= c < nc and grid[r][c] == 1

    nxt = {}
    nedges = 0
    for r in range(nr):
        for c in range(nc):
            if not on(r, c):
                continue
            y0, y1 = nr - r - 1, nr - r
            edges = []
            if not on(r + 1, c):
                edges.append(((c, y0), (c + 1, y0)))
            if not on(r, c + 1):
                edges.append(((c + 1, y0), (c + 1, y1)))
            if not on(r - 1, c):
                edges.append(((c + 1, y1), (c, y1)))
            if not on(r, c - 1):
                edges.append(((c, y1), (c, y0)))
            for a, b in edges:
                if a in nxt:
                    return None              # two outgoing edges at one point: the outline touches itself
                nxt[a] = b
                nedges += 1
    if not nxt:
        return None
    start = min(nxt)
    loop, p = [start], nxt[start]
    while p != start:
        loop.append(p)
        p = nxt[p]
    if len(loop) != nedges:
        return None                          # more than one loop: a hole or several pieces
    out = []
    n = len(loop)
    for i in range(n):
        a, b, c = loop[i - 1], loop[i], loop[(i + 1) % n]
        if not ((a[0] == b[0] == c[0]) or (a[1] == b[1] == c[1])):
            out.append(b)
    return out


def spacing(n, salt):
    """line coordinates 0 = l0 < l1 < .. < ln; uniform for even salt, steps 1..3 otherwise"""
    if salt % 2 == 0:
        return list(range(n + 1))
    out = [0]
    for k in range(n):
        out.append(out[-1] + 1 + (salt // 2 + 2 * k) % 3)
    return out


def comb_spacing(n, salt, long_step, unit, start=0):
    """line coordinates from `start` with steps 1, 2, 8 times `unit` and, when long_step > 0, ONE long step"""
    out, at = [start], salt % n
    for k in range(n):
        out.append(out[-1] + (long_step if long_step and k == at else unit * (1, 2, 8)[(salt + k) % 3]))
    return out


def cropped(grid):
    """the drawing without its empty border rows / columns (None for an empty drawing)"""
    rows = [r for r in range(len(grid)) if any(grid[r])]
    cols = [c for c in range(len(grid[0])) if any(row[c] for row in grid)]
    if not rows:
        return None
    return [row[cols[0]:cols[-1] + 1] for row in grid[rows[0]:rows[-1] + 1]]


def trimmed(grid):
    return any(grid[0]) and any(grid[-1]) and any(r[0] for r in grid) and any(r[-1] for r in grid)


# ----------------------------------------------------------------------------------------- real code
def _grid_event(grid):
    from tools.floorset_parser.floor_set_manager.strop import Strop
    ev = {"kind": "grid", "grid": grid}
    try:
        s = Strop("\n".join("".join(str(v) for v in row) for row in grid))
        ev["is"] = int(bool(s.is_strop))
        def look(i):
            return [[int(q.rows.low), int(q.rows.high), int(q.columns.low), int(q.columns.high)] for q in i.rectangles()]
        ev["insts"] = sorted(look(i) for i in s.instances())
        # every instance is looked at again: after str(instance), and rectangles() a third time
        again = []
        for i in s.instances():
            str(i)
            again.append(look(i))
        ev["insts2"] = sorted(again)
        ev["insts3"] = sorted(look(i) for i in s.instances())
    except Exception as e:      # every non-empty matrix of equal-length 0/1 rows is inside the quantifier
        ev["exc"] = f"{type(e).__name__}: {e}"
    return ev


def _poly_events(case):
    """All observations of strop_decomposition for one drawing: -> list of (event, [tags])"""
    import numpy as np
    from frame.geometry.geometry import Point, Rectangle
    from frame.netlist.netlist import Netlist
    from tools.floorset_parser.floor_set_manager.utils.utils import strop_decomposition
    grid, xs, yl = case["grid"], case["xs"], case["yl"]          # yl: bottom to top
    loop = case["loop"]
    n = len(loop)
    found: dict[str, list] = {}
    variants = []
    for orient in ("ccw", "cw"):
        base = loop if orient == "ccw" else loop[::-1]
        for start in sorted({0, case["salt"] % n}):
            variants.append((orient, start, [base[(start + i) % n] for i in range(n)]))
    for en in case["embs"]:
        emb = EMBEDDINGS[en]
        loaded_cache = {}
        for vi, (orient, start, idx) in enumerate(variants):
            verts = [[xs[ix], yl[iy]] for ix, iy in idx]
            # thorough: both containers for every outline; quick: alternating
            containers = ("points", "numpy") if case["both_containers"] else (("points", "numpy")[vi % 2],)
            if en == "int":          # integer coordinates: also as integer-dtype arrays
                containers = containers + (("int64", "int32")[vi % 2],) if not case["both_containers"] else containers + ("int64", "int32")
            for container in containers:
                fl = [(emb.coord(x), emb.coord(y)) for x, y in verts]
                if container == "points":
                    arg = [Point(x, y) for x, y in fl]
                elif container == "numpy":
                    arg = np.array(fl, dtype=float)
                else:
                    arg = np.array(fl, dtype=np.int64 if container == "int64" else np.int32)
                ev = {"verts": verts}
                try:
                    res = strop_decomposition(arg)
                    ev["got"] = 1
                except AssertionError:
                    res = None
                    ev["got"] = 0
                    ev["refusal"] = "AssertionError"
                except Exception as e:
                    res = None
                    ev["got"] = 0
                    ev["refusal"] = type(e).__name__
                if res is None:
                    ev.update({"rects": [], "ok": 0, "loaded": []})
                else:
                    try:
                        ev["rects"] = [emb.back_rect(*r) for r in res]
                        key = repr([[(type(v).__name__, float(v)) for v in r] for r in res])     # (the types matter to the loader)
                        if key not in loaded_cache:
                            # the rectangles go to Netlist AS RETURNED (a tree, as floor_set_manager hands them on), not
                            # through their string form
                            doc = {"Modules": {"M": {"area": float(sum(float(r[2]) * float(r[3]) for r in res)), "rectangles": res}},
                                   "Nets": []}
                            Rectangle.undefine_epsilon()
                            try:
                                m = Netlist(doc).get_module("M")
                                loaded_cache[key] = (int(bool(m.has_stog)),
                                                     [emb.back_rectangle(o) + [ROLE[o.location.name]] for o in m.rectangles])
                            except OffLattice:
                                raise
                            except Exception as e:
                                loaded_cache[key] = (0, [], f"{type(e).__name__}: {e}"[:120])
                        lc = loaded_cache[key]
                        ev["ok"], ev["loaded"] = lc[0], lc[1]
                        if len(lc) > 2:
                            ev["load_error"] = lc[2]
                    except OffLattice as e:
                        ev = {"verts": verts, "off": str(e)}
                k = json.dumps(ev, sort_keys=True)
                found.setdefault(k, [ev, []])[1].append(f"{en}/{orient}/{start}/{container}")
    bad = [(ev, tags) for ev, tags in found.values() if "off" in ev]
    good = [(ev, tags) for ev, tags in found.values() if "off" not in ev]
    out = [({"kind": "poly", "grid": grid, "verts": ev["verts"], "off": ev["off"]}, tags) for ev, tags in bad]
    if good:
        out.append(({"kind": "poly", "grid": grid, "xs": xs, "ys": yl[::-1], "salt": case["salt"],
                     "calls": [ev for ev, _t in good]}, [t for _e, t in good]))
    return out


def run_case(case):
    if case["kind"] == "grids":
        return [(_grid_event(g), ["-"]) for g in case["grids"]]
    return _poly_events(case)


# ----------------------------------------------------------------------------------------- cases
def poly_case(grid, salt, embs=ALL, origin="tlc", both=True):
    loop = trace_outline(grid)
    if loop is None:
        return None
    nr, nc = len(grid), len(grid[0])
    return {"kind": "poly", "grid": grid, "xs": spacing(nc, salt), "yl": spacing(nr, salt // 3 + 1 if salt % 2 else 0),
            "loop": loop, "salt": salt, "embs": list(embs), "origin": origin, "both_containers": both}


def comb_case(grid, salt, origin="tlc"):
    """The same drawing as a comb / bar under the decimal embedding (step 0.1).  One axis has its lines at 16.0 plus
    0.1 / 0.2 / 0.8 steps (inexact: neighbouring rectangles may overlap by one unit in the last place, 3.6e-15 there);
    the other axis has exactly representable lines 1.0 / 2.0 / 8.0 apart with ONE step of 128.0, 256.0, 16384.0 or 131072.0.  The
    rectangles then share sides thousands of times longer than the smallest side (0.1), so that a one-ulp overlap has
    an area above the DISTANCE tolerance (1e-13) and far below the area tolerance.  With the two longest steps the
    distance tolerance is absorbed by rounding at the far coordinates (X + 1e-13 == X): flush corners must still be
    accepted (fixed in /repo by f5ae586)."""
    pc = poly_case(grid, salt, embs=["dec"], origin=origin + "-comb", both=False)
    if pc is None:
        return None
    nr, nc = len(grid), len(grid[0])
    long_step = (1280, 2560, 163840, 1310720)[(salt // 2) % 4]      # 128.0, 256.0, 16384.0, 131072.0
    if salt % 2 == 0:
        pc["xs"], pc["yl"] = comb_spacing(nc, salt // 2, long_step, 10), comb_spacing(nr, salt // 2 + 1, 0, 1, 160)
    else:
        pc["xs"], pc["yl"] = comb_spacing(nc, salt // 2 + 1, 0, 1, 160), comb_spacing(nr, salt // 2, long_step, 10)
    return pc


def random_grids(rng: random.Random, n: int) -> list:
    """Grids up to 8x8: orthogons built from a random trunk and random side histograms, the same with one cell
    flipped (near misses: a notch in a branch, a cell in a corner, a detached cell), and noise."""
    out = []
    for i in range(n):
        nr, nc = rng.randint(3, 8), rng.randint(3, 8)
        if i % 4 == 3:
            p = rng.choice([0.35, 0.5, 0.7, 0.85])
            out.append([[int(rng.random() < p) for _ in range(nc)] for _ in range(nr)])
            continue
        r1 = rng.randint(0, nr - 1); r2 = rng.randint(r1, nr - 1)
        c1 = rng.randint(0, nc - 1); c2 = rng.randint(c1, nc - 1)
        g = [[0] * nc for _ in range(nr)]
        for r in range(r1, r2 + 1):
            for c in range(c1, c2 + 1):
                g[r][c] = 1

        def heights(length, room):
            hs, k = [], 0
            while k < length:
                run = rng.randint(1, length - k)
                h = rng.choice([0, rng.randint(0, room)]) if room > 0 else 0
                hs += [h] * run
                k += run
            return hs
        for c, h in zip(range(c1, c2 + 1), heights(c2 - c1 + 1, r1)):
            for k in range(h):
                g[r1 - 1 - k][c] = 1
        for c, h in zip(range(c1, c2 + 1), heights(c2 - c1 + 1, nr - 1 - r2)):
            for k in range(h):
                g[r2 + 1 + k][c] = 1
        for r, h in zip(range(r1, r2 + 1), heights(r2 - r1 + 1, c1)):
            for k in range(h):
                g[r][c1 - 1 - k] = 1
        for r, h in zip(range(r1, r2 + 1), heights(r2 - r1 + 1, nc - 1 - c2)):
            for k in range(h):
                g[r][c2 + 1 + k] = 1
        if i % 4 in (1, 2):
            r, c = rng.randrange(nr), rng.randrange(nc)
            g[r][c] = 1 - g[r][c]
        if not any(any(row) for row in g):
            g[0][0] = 1
        out.append(g)
    return out


# ----------------------------------------------------------------------------------------- judging
def decide(ctx: Ctx, cases: list[dict]):
    prepare_imports()
    import numpy  # noqa: F401
    import frame.netlist.netlist  # noqa: F401
    import tools.floorset_parser.floor_set_manager.utils.utils  # noqa: F401  (parent imports, children use)
    stats = ctx.extra.setdefault("observed", {"grid_events": 0, "grids_is_strop": 0, "instances": 0,
                                              "poly_calls": 0, "poly_events": 0, "poly_decomposed": 0, "poly_refused": 0})
    rounds, cur, w = [], [], 0
    for c in cases:
        cur.append(c)
        w += len(c["grids"]) if c["kind"] == "grids" else 8
        if w >= EVENTS_PER_ROUND:
            rounds.append(cur)
            cur, w = [], 0
    if cur:
        rounds.append(cur)
    for part in rounds:
        results = run_cases(run_case, part, nproc=16)
        traces = {}
        for c, (st, val) in zip(part, results):
            if st != "ok":
                ctx.violation("no_result", {"case": {k: c[k] for k in c if k != "loop"}, "status": st}, {"status": st},
                              {"kind": c["kind"]})
                continue
            evs, owners = [], []
            for ev, tags in val:
                ncalls = sum(len(x) for x in tags) if ev["kind"] == "poly" and "calls" in ev else len(tags)
                ctx.count(n=ncalls)
                if ev["kind"] == "poly":
                    stats["poly_calls"] += ncalls
                if "exc" in ev or "off" in ev:
                    clause = "raises" if "exc" in ev else "off_lattice"
                    ctx.violation(clause, {"event": {k: ev[k] for k in ("kind", "grid", "verts") if k in ev}, "tags": tags},
                                  {k: ev[k] for k in ("exc", "off") if k in ev}, {"kind": ev["kind"]})
                    continue
                evs.append(ev)
                owners.append(tags)
            if not evs:
                continue
            t = {"events": evs}
            key = digest(t)
            if key not in traces:
                t["id"] = key
                traces[key] = (t, owners, c.get("origin", ""))
        verdicts = tlc.validate_traces(ctx, "StropTrace", "StropTrace", [t for (t, _o, _g) in traces.values()], chunk=10 ** 9)
        for key, v in verdicts.items():
            t, owners, origin = traces[key]
            for ev in t["events"]:
                if ev["kind"] == "grid":
                    stats["grid_events"] += 1
                    stats["grids_is_strop"] += ev["is"]
                    stats["instances"] += len(ev["insts"])
                    ctx.count(digest(ev["grid"]), nontrivial=sum(map(sum, ev["grid"])) >= 2, n=0)
                else:
                    for o in ev["calls"]:
                        stats["poly_events"] += 1
                        stats["poly_decomposed"] += o["got"]
                        stats["poly_refused"] += 1 - o["got"]
                        ctx.count(digest([o["verts"], ev["xs"], ev["ys"]]), nontrivial=True, n=0)
            for (l, clause, k) in v["fails"]:
                ev = t["events"][l - 1]
                if ev["kind"] == "grid":
                    case = {"event": {"kind": "grid", "grid": ev["grid"]}, "origin": origin}
                    detail = {"is": ev["is"], "insts": ev["insts"]}
                else:
                    o = ev["calls"][k - 1]
                    case = {"event": {"kind": "poly", "grid": ev["grid"], "xs": ev["xs"], "ys": ev["ys"], "salt": ev["salt"],
                                      "verts": o["verts"]}, "tags": owners[l - 1][k - 1], "origin": origin}
                    detail = {x: o[x] for x in ("got", "rects", "ok", "loaded", "refusal", "load_error") if x in o}
                ctx.violation(clause, case, detail, {"kind": ev["kind"], "cells": sum(map(sum, ev["grid"]))})
            for (l, what, k) in v["drift"]:
                if what == "harness_tracing":
                    raise MachineryError(f"outline tracing inconsistent with the drawing: {t['events'][l - 1]}")
                if not any(f[0] == l and f[2] == k for f in v["fails"]):
                    ctx.model_drift(f"{what}: the observation satisfies every clause but differs from the model's outcome")
        for (t, owners, origin) in list(traces.values())[:1] + list(traces.values())[-1:]:
            ctx.sample({"origin": origin, "event": t["events"][-1]})


def build_cases(grids, origin, poly_cells, seed, crop=False, both=True):
    cases = []
    for i in range(0, len(grids), GRIDS_PER_TRACE):
        cases.append({"kind": "grids", "grids": grids[i:i + GRIDS_PER_TRACE], "origin": origin})
    k = 0
    for gi, g in enumerate(grids):
        if crop:
            g = cropped(g)
        if g is not None and len(g) * len(g[0]) <= poly_cells and trimmed(g):
            pc = poly_case(g, salt=gi + seed, origin=origin, both=both)
            if pc is not None:
                cases.append(pc)
                k += 1
                if gi % 2 == 0:          # every second drawing also as a comb
                    cases.append(comb_case(g, salt=gi + seed, origin=origin))
    return cases, k


def run(ctx: Ctx) -> int:
    if ctx.replay:
        rec = json.load(open(ctx.replay))
        e = rec["case"]["event"]
        if e["kind"] == "grid":
            cases = [{"kind": "grids", "grids": [e["grid"]], "origin": "replay"}]
        else:
            # every orientation / start vertex / container / embedding of that drawing is run again
            cases = [{"kind": "poly", "grid": e["grid"], "xs": e["xs"], "yl": e["ys"][::-1], "loop": trace_outline(e["grid"]),
                      "salt": e.get("salt", 0), "embs": ALL, "origin": "replay", "both_containers": True}]
        decide(ctx, cases)
        return ctx.finish("model_checking", "replay of one recorded case")
    tier = ctx.tier
    tlc.model_check(ctx, "Strop", "Strop_mc_vacuity", vacuity_ignore=("Emit",))
    tlc.model_check(ctx, "Strop", f"Strop_mc_{tier}", coverage=False)
    printed = tlc.generate(ctx, "Strop", f"Strop_gen_{tier}")
    grids = [c["grid"] for c in printed]
    cases, npoly = build_cases(grids, "tlc", 12, ctx.seed, both=tier == "thorough")
    rng = random.Random(ctx.seed * 1000003 + 15)
    rgrids = random_grids(rng, 160 if tier == "quick" else 1600)
    rcases, rpoly = build_cases(rgrids, "random", 64, ctx.seed, crop=True, both=tier == "thorough")
    decide(ctx, cases + rcases)
    st = ctx.extra["observed"]
    if min(st["grids_is_strop"], st["poly_decomposed"], st["poly_refused"], st["instances"]) == 0:
        raise MachineryError(f"vacuous run: {st}")
    ctx.extra["embeddings"] = ALL
    ctx.extra["cases"] = {"tlc_grids": len(grids), "tlc_polygon_drawings": npoly, "random_grids": len(rgrids),
                          "random_polygon_drawings": rpoly}
    ctx.assumptions += [
        "grids are enumerated exhaustively up to the cfg bound (quick: <= 12 cells with sides <= 4; thorough: <= 16 cells with sides <= 5), randomly up to 8x8",
        "vertex lists: the outline of every enumerated grid of at most 12 cells that is one simple polygon and fills its bounding box, "
        "both orientations, two start vertices, Point list and numpy rows (quick: alternating, thorough: both for every outline), "
        "uniform or 1..3-step line spacing, 9 float embeddings (lattice.py's eight + mega); every second drawing also as a comb under the decimal embedding (one axis in 0.1 / 0.2 / "
        "0.8 steps from 16.0, the other in exactly representable 1 / 2 / 8 steps with one step of 128, 256, 16384 or 131072)",
        "for grids of more than 12 cells the oracle of 'a decomposition exists' is the shadow characterisation, proved equal to the declarative definition by TLC on all grids of at most 12 cells",
        "a refusal of strop_decomposition (its assertion 'Polygon is not a STROP') is read as 'no decomposition reported'",
        "'recognised with the trunk first' is read as: Module.has_stog, the first rectangle carries TRUNK and every other rectangle abuts it (any valid trunk)",
    ]
    return ctx.finish(
        "model_checking",
        "TLC draws every 0/1 grid of the bounded sizes and proves declarative = shadow = specified algorithm; every grid is run through "
        "Strop(matrix) and, when it is a simple polygon, through strop_decomposition + Netlist; evaluations = real calls; distinct = "
        "distinct grids plus distinct (vertex list, spacing) polygons judged by TLC; non-trivial = grids with at least two cells and all polygons",
        exhaustive=False)
