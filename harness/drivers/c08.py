"""C08 -- the rectilinear shape search of tools/rect admits exactly the k-box single-trunk orthogons.

TLC (RectSearch) model-checks that the three descriptions of the admitted shapes coincide on every grid of the
bounded universe (Decl = the statement, Gen = ChooseTrunk;AddBranch^(k-1), Enc = the constraints enforce_bb posts)
and that solve()/the improvement loop are sound, complete and end on an optimum; it then emits the cases:
one per (grid, k) and one per (grid, occupancy, k) with the optimum cost.

Every case runs on the real rect.solve under the float embeddings of harness.lattice.  Calls are made one per
fresh process (pseudobool keeps a process-wide diagram store) and, for half of the loops across the sat/unsat boundary,
all in ONE process, the way rect.main() runs its improvement loop: the specification has no process state, so a later
call is judged exactly as a first call.  rect.Carrier() cannot be constructed on Linux (its
GreedyManager loads a Windows DLL), and solve/enforce_bb/definecoords/area only read attributes, so the carrier is a
types.SimpleNamespace with the same fields, filled by the real rect.definecoords.  The SATManager solve() builds
is captured (harness-side subclass bound to the module-level name) and ALL models of its clauses, projected on
the per-box cell literals b<i>_<cell>, are enumerated with blocking clauses.  Returned rectangles, coordinate
lists and models are pulled back to the lattice and judged by TLC (RectSearchTrace): missing / spurious models,
sat iff feasible, returned rectangles = boxes of an admitted shape meeting the bound.

Growth (a slice in quick, the full universe in thorough; evidence key coverage.from_allocation, no further property claim): the front end of the rect
stage.  RectSearch's "alloc" mode (FromAllocation / LoadAllocation, invariants FrontEndOK and EndToEndExact) is
model-checked and emits (allocation, module, k) records; each becomes an Allocation YAML document plus a netlist YAML
document (or none: get_netlist derives one) that go through rect_io.get_alloc / get_netlist / select_box, and the
improvement loop of rect.main() (`dif = last`, `while last[0] > 0 and q1 > quality`) re-implemented around the real
rect.solve.  The documents have two or three modules and OVER-occupied cells (sum of the ratios of a cell > 1); the
document is written in varying surface forms (integral ratios as integers `M1: 1`, integer rectangle numbers,
module order, flow / block style, explicit depth, file name or YAML text; a module missing from a cell or present with
0), parsed back independently of FRAME, and TLC judges against the ratios AS WRITTEN.  TLC judges the
InputProblem select_box produced (same cells, occupancy = ratio, disjoint) and the
end-to-end contract (a module allocated with ratio 1 exactly on a k-STOG gets exactly that shape, zero error).

A seeded random driver adds larger / irregular grids (to 4x3 in quick, 5x4 in thorough; random spacing, origin,
cell order, occupancy denominators 2, 4, 10, k up to 4) on the same path; its bounds are planned with a small Python enumerator
(input planning only -- TLC is the judge).
"""
from __future__ import annotations

import contextlib
import io
import json
import random
import types
from fractions import Fraction as F

from ..core import Ctx, MachineryError, digest
from ..forkpool import prepare_imports, run_cases, _fresh_child
from ..lattice import ALL as _ALL8, EMBEDDINGS as _EMB8, EXACT as _EXACT8, Emb, OffLattice
from .. import tlc

# The eight shared embeddings plus two of this driver's own with MANY SIGNIFICANT DIGITS per coordinate (grid lines
# that agree in their first six digits): a large origin with unit pitch, and a 0.001 pitch at offset 1000.
EMBEDDINGS = dict(_EMB8)
EMBEDDINGS["far"] = Emb("far", 1, 3 * 10 ** 6)               # 3000000.0, 3000001.0, ... (exact floats)
EMBEDDINGS["farmilli"] = Emb("farmilli", F(1, 1000), 1000)   # 1000.0, 1000.001, 1000.002, ...


class _MulEmb(Emb):
    """step 0.1, offset 0, with every number produced by FLOAT ARITHMETIC (q * 0.1) instead of the correctly rounded
    decimal: 3 * 0.1 = 0.30000000000000004, and the half of such a width differs from the centre 0.15 in the last
    bit.  On a grid that straddles the origin the line 0 is then reached as +0.0 from one side and as -0.0 from the
    other (select_box: round(-2.8e-17, 9) = -0.0): two floats that are == (one grid line for definecoords, one
    dictionary key) but print differently."""

    def coord(self, q):
        return float(q) * 0.1

    def length(self, q):
        return float(q) * 0.1

    def area(self, q):
        return float(q) * 0.1 * 0.1

    def rect(self, r):
        x1, y1, x2, y2 = r[:4]
        # centres as decimal literals (-0.15), sizes by multiplication (3 * 0.1): centre + size/2 = +2.8e-17 on one side
        # of the line 0 and centre - size/2 = -2.8e-17 on the other
        return [float(F(x1 + x2, 20)), float(F(y1 + y2, 20)), (x2 - x1) * 0.1, (y2 - y1) * 0.1]


EMBEDDINGS["decmul"] = _MulEmb("decmul", F(1, 10))
ALL = list(_ALL8) + ["far", "farmilli", "decmul"]
EXACT = set(_EXACT8) | {"far"}

VACUOUS = -10 ** 8          # a bound every shape meets: the cost constraint is a tautology and is not even posted
RATIO = 2.0                 # minimum-error mode (rect.py --minerr, the default)
MAX_MODELS = 40000
MAX_LOOP = 5
PUB = ("kind", "cells", "k", "den", "emb", "path", "plan", "proc", "alloc", "mod", "netlist", "form")     # what a replay file holds
# carrier.factor per embedding (main() uses 10000): chosen so that the integer cell weights neither vanish (tiny)
# nor overflow TLC's 32-bit integers (big)
FACTOR = {"int": 10000, "flt": 10000, "half": 10000, "dec": 10000, "third": 10000, "off": 10000,
          "big": 1, "tiny": 10 ** 8, "far": 10000, "farmilli": 10 ** 8, "decmul": 10000}


# ------------------------------------------------------------------------------------------------ real code
def _solve_once(p):
    """One rect.solve() call.  p: cells (floats), ifile, factor, k, bound, path.  Runs in a pristine process
    (proc = "fresh": one fork per call) or as one of several calls of one process (proc = "same", see _drive)."""
    import tools.rect.rect as R
    import tools.rect.satmanager as SM
    from pysat.solvers import Solver

    made = []
    if not hasattr(SM, "_verif_original"):
        SM._verif_original = SM.SATManager                  # repeated calls in ONE process subclass the real class

    class Recording(SM._verif_original):
        def __init__(self):
            super().__init__()
            made.append(self)

    R.satmanager.SATManager = Recording
    car = types.SimpleNamespace(input_problem=[], selbox="", factor=p["factor"], inibox=(0, 0, 0, 0, 0), blocks=[],
                                prev_x={}, prev_y={}, next_x={}, next_y={}, xcoords=[], ycoords=[],
                                theoreticalBestArea=0.0, gm=None)
    if p["path"] == "select_box":
        from tools.rect.rect_io import select_box
        car.input_problem, car.selbox = select_box(p.get("module", "M"), p["ifile"])
    else:
        car.input_problem, car.selbox = [tuple(c) for c in p["cells"]], "M"
    out = {}
    with contextlib.redirect_stdout(io.StringIO()):
        R.definecoords(car)
        car.theoreticalBestArea = 0
        for b in car.blocks:                                  # as main() does
            car.theoreticalBestArea += R.area(car, b, True)
        out["input"] = [list(c) for c in car.input_problem]
        out["xs"], out["ys"] = list(car.xcoords), list(car.ycoords)
        out["wsel"] = [R.area(car, b, True) for b in car.blocks]
        out["wreal"] = [R.area(car, b, False) for b in car.blocks]
        try:
            last, rects, q = R.solve(car, p["ifile"], RATIO, (p["bound"], 1), p["k"])
        except Exception as e:  # solve is defined on every grid / bound of the quantifier
            out["exc"] = f"{type(e).__name__}: {e}"
            return out
    out["ret"] = [int(last[0]), int(last[1])]
    out["quality"] = float(q)
    out["rects"] = [list(r) for r in rects]
    # every model of the formula solve() built, projected on the per-box cell literals
    sm = made[-1]
    n, k = len(car.blocks), p["k"]
    s = Solver(name="g3")
    for cl in sm.clauses:
        s.add_clause([sm.ttable[x.v] if x.s != sm.isflipped(x.v) else -sm.ttable[x.v] for x in cl])
    pv = [[sm.ttable[f"b{i}_{b}"] for b in range(n)] for i in range(k)]
    flat = [v for row in pv for v in row]
    models, full = [], 1
    while s.solve():
        m = set(x for x in s.get_model() if x > 0)
        models.append([sum(1 << b for b in range(n) if pv[i][b] in m) for i in range(k)])
        if len(models) >= MAX_MODELS:
            full = 0
            break
        s.add_clause([-v if v in m else v for v in flat])
    s.delete()
    out["models"], out["full"] = models, full
    return out


def _embed(case):
    """lattice case -> payload pieces for the real code"""
    emb = EMBEDDINGS[case["emb"]]
    den = case["den"]
    cells = [(emb.coord(c[0]), emb.coord(c[1]), emb.coord(c[2]), emb.coord(c[3]), c[4] / den)
             for c in case["cells"]]
    if case["emb"] == "decmul":
        # plain cell lists too: the grid line 0 is written -0.0 where it is the UPPER corner of a cell and 0.0 where it is
        # the lower one (== for definecoords and every dictionary of the carrier, different as text)
        cells = [(c[0], c[1], -0.0 if c[2] == 0 else c[2], -0.0 if c[3] == 0 else c[3], c[4]) for c in cells]
    x0, x1 = min(c[0] for c in case["cells"]), max(c[2] for c in case["cells"])
    y0, y1 = min(c[1] for c in case["cells"]), max(c[3] for c in case["cells"])
    # get_alloc(): Width / Height = the bounding box of the allocation
    ifile = {"Width": emb.length(x1 - x0), "Height": emb.length(y1 - y0)}
    if case["path"] == "select_box":
        rl = []
        for i, c in enumerate(case["cells"]):
            cx, cy, w, h = emb.rect(c)
            rl.append({f"b{i}": [{"dim": [cx, cy, w, h]}, {"mod": [{"M": cells[i][4]}, {"other": 0.25}]}]})
        ifile["Rectangles"] = rl
    return emb, cells, ifile


def _drive(base, start, step, max_calls, proc):
    """The sequence of solve() calls of one loop -> [(bound, status, output)].  `step(output, state)` gives the next
    bound or None (it is main()'s loop condition).  proc = "fresh": every call in its own forked process (no
    history at all: pseudobool's diagram store and everything else pristine).  proc = "same": ONE forked process
    makes all the calls one after the other -- the way rect.main() really runs its improvement loop, so that
    process-wide state (pseudobool.memory / mmap, class-level tables of SATManager, ...) carries over from call to
    call.  The specification has no such state: every call must be judged exactly as a first call is."""
    def calls(run_one):
        out, bound, state = [], start, {}
        for _ in range(max_calls):
            st, o = run_one(dict(base, bound=bound))
            out.append((bound, st, o))
            if st != "ok" or "exc" in o:
                break
            bound = step(o, state)
            if bound is None:
                break
        return out
    if proc == "same":
        st, res = _fresh_child(lambda _: calls(lambda q: ("ok", _solve_once(q))), None, 900)
        if st == "harness_error":
            raise RuntimeError(res)
        return res if st == "ok" else [(start, st, res)]
    return calls(lambda q: _fresh_child(_solve_once, q, 300))


def _back(emb, v):
    """Total pull-back of one coordinate: anything that is not a finite number on the lattice is OffLattice (the
    caller reports clause off_lattice) -- never an exception of the harness."""
    try:
        f = float(v)
    except (TypeError, ValueError):
        raise OffLattice(f"not a number: {v!r}")
    if f != f or f in (float("inf"), float("-inf")):
        raise OffLattice(f"non-finite coordinate {v!r}")
    try:
        return emb.back_coord(f)
    except (OverflowError, ValueError) as e:
        raise OffLattice(f"coordinate {v!r}: {e}")


def _record(emb, obs, case, bound, st, o, check_input=True):
    """Pull one call's output back to the lattice and append it to obs["events"]; -> False when the loop must stop."""
    if st == "harness_error":
        raise RuntimeError(o)
    if st != "ok":
        obs["events"].append({"bound": bound, "status": st, "detail": str(o)[:500]})
        return False
    try:
        if "xs" not in obs:
            obs["xs"] = [_back(emb, v) for v in o["xs"]]
            obs["ys"] = [_back(emb, v) for v in o["ys"]]
            obs["wsel"], obs["wreal"] = o["wsel"], o["wreal"]
            if check_input:
                got = [[_back(emb, v) for v in c[:4]] for c in o["input"]]
                if got != [c[:4] for c in case["cells"]]:
                    raise OffLattice(f"select_box changed the cells: {got[:3]}")
            else:
                den, inp = case["den"], []
                for c in o["input"]:
                    q = c[4] * den
                    if q != q or abs(q) > 1e9 or abs(q - round(q)) > 1e-9:
                        raise OffLattice(f"occupancy {c[4]!r}")
                    inp.append([_back(emb, v) for v in c[:4]] + [int(round(q))])
                obs["inp"] = inp
        if "exc" in o:
            obs["events"].append({"bound": bound, "exc": o["exc"]})
            return False
        ev = {"bound": bound, "sat": int(len(o["rects"]) > 0), "ret": o["ret"][0],
              "rects": [[_back(emb, v) for v in r] for r in o["rects"]],
              "models": sorted(o["models"]), "full": o["full"]}
    except OffLattice as e:
        obs["events"].append({"bound": bound, "off": str(e)})
        return False
    obs["events"].append(ev)
    return True


def run_case(case):
    """-> observation of one lattice case under one embedding: pulled-back coordinate lists, weights and events."""
    if case["kind"] == "alloc":
        return run_alloc_case(case)
    emb, cells, ifile = _embed(case)
    base = {"cells": cells, "ifile": ifile, "factor": FACTOR[case["emb"]], "k": case["k"], "path": case["path"]}
    obs = {"events": []}

    def step(o, _state):             # main(): dif = last, as long as a shape was found
        return o["ret"][0] if o["rects"] and o["ret"][1] == 1 else None
    for bound, st, o in _drive(base, case["plan"][1], step, MAX_LOOP if case["plan"][0] == "loop" else 1,
                               case.get("proc", "fresh")):
        if not _record(emb, obs, case, bound, st, o):
            break
    return obs


# ------------------------------------------------------------------------------------------------ from an allocation
MAX_ALLOC_LOOP = 60


def _front_end(p):
    """rect.main()'s front end in a pristine process: Allocation YAML (+ netlist YAML or None) -> get_alloc,
    get_netlist, the module names main() collects, the hard / fixed flags it tests."""
    from frame.geometry.geometry import Rectangle
    from tools.rect.rect_io import get_alloc, get_netlist
    Rectangle.undefine_epsilon()
    with contextlib.redirect_stdout(io.StringIO()):
        ifile = get_alloc(p["alloc_file"])
        netlist = get_netlist(p["net_file"], p["alloc_file"])
    names = set()
    for r in ifile["Rectangles"]:               # as main() does
        for bname in r:
            for lst in r[bname][1]["mod"]:
                for m in lst:
                    names.add(m)
    idx = {m.name: i for i, m in enumerate(netlist.modules)}
    flags = {n: [int(bool(netlist.modules[idx[n]].is_hard)), int(bool(netlist.modules[idx[n]].is_fixed))]
             for n in names if n in idx}
    return {"ifile": ifile, "names": sorted(names), "flags": flags, "netlist_modules": sorted(idx)}


def run_alloc_case(case):
    """An allocation document + a netlist document -> rect_io -> the improvement loop of rect.main() around the real
    rect.solve (main() itself cannot run on Linux: Carrier() loads a Windows DLL for the greedy seed, so the loop
    starts from dif = (1, 1) instead of the greedy one-box optimum).  Every solve() call in a fresh process."""
    import os
    import tempfile
    emb = EMBEDDINGS[case["emb"]]
    den = case["den"]
    d = tempfile.mkdtemp(prefix="c08alloc")
    # Surface form of the document (bits of case["form"]): 1 = integral ratios written as integers (M1: 1, M2: 0),
    # 2 = integral rectangle numbers written as integers, 4 = modules of a cell in reverse order, 8 = block style
    # instead of flow style, 16 = the YAML TEXT is handed to rect_io instead of a file name, 32 = explicit depth 0.
    form = case.get("form", 0)

    def num(v, as_int):
        return repr(int(v)) if as_int and float(v).is_integer() else repr(float(v))
    lines, areas, mx, my = [], {}, {}, {}
    for c in case["alloc"]:
        cx, cy, w, h = emb.rect(c)
        occ = {f"M{m + 1}": (n / den) for m, n in enumerate(c[6]) if n >= 0}
        for name, v in occ.items():
            a = float(w) * float(h) * v
            areas[name] = areas.get(name, 0.0) + a
            mx[name] = mx.get(name, 0.0) + a * cx
            my[name] = my.get(name, 0.0) + a * cy
        items = [(k, num(v, form & 1)) for k, v in occ.items()]
        if form & 4:
            items.reverse()
        rect = "[%s]" % ", ".join(num(v, form & 2) for v in (cx, cy, w, h))
        depth = ", 0" if form & 32 else ""
        if form & 8 and items:
            lines.append("- - %s\n  - %s%s" % (rect, "\n    ".join(f"{k}: {v}" for k, v in items), "\n  - 0" if form & 32 else ""))
        else:
            lines.append("- [%s, {%s}%s]" % (rect, ", ".join(f"{k}: {v}" for k, v in items), depth))
    af = os.path.join(d, "alloc.yaml")
    text = "\n".join(lines) + "\n"
    with open(af, "w") as f:
        f.write(text)
    # the allocation AS WRITTEN: the document is parsed back independently of FRAME (plain YAML), pulled back to the
    # lattice, and THAT is what TLC judges the front end and the end-to-end contract against
    from ruamel.yaml import YAML        # plain YAML loader (no FRAME code involved)
    written = []
    for item in YAML(typ="safe").load(open(af).read()):
        rect, occ = item[0], item[1]
        r = emb.back_rect(*[float(v) for v in rect])
        rat = []
        for m in range(len(case["alloc"][0][6])):
            v = occ.get(f"M{m + 1}")
            rat.append(-1 if v is None else int(round(float(v) * den)))
        written.append(r + [0, 0, rat])
    if written != [list(c[:6]) + [list(c[6])] for c in case["alloc"]]:
        raise RuntimeError(f"harness: the document written does not read back as the case: {written[:2]} vs {case['alloc'][:2]}")
    nf = None
    if case["netlist"] == "file":
        nf = os.path.join(d, "netlist.yaml")
        mods = []
        for name in sorted(areas):
            a = areas[name]
            ctr = [mx[name] / a, my[name] / a] if a > 0 else list(emb.rect(case["alloc"][0])[:2])
            mods.append("  %s: {area: %r, center: [%r, %r]}" % (name, max(a, float(emb.area(1)) / 4), float(ctr[0]), float(ctr[1])))
        with open(nf, "w") as f:
            f.write("Modules: {\n" + ",\n".join(mods) + "\n}\nNets: []\n")
    obs = {"events": [], "complete": 0, "alloc_written": written}
    st, fe = _fresh_child(_front_end, {"alloc_file": text if form & 16 else af, "net_file": nf}, 300)
    if st == "harness_error":
        # an exception inside get_alloc / get_netlist on a valid allocation document is an observation, not a harness bug
        obs["events"].append({"bound": 1, "exc": "front end: " + str(fe).splitlines()[0][:300]})
        return obs
    if st != "ok":
        obs["events"].append({"bound": 1, "status": st, "detail": str(fe)[:300]})
        return obs
    name = f"M{case['mod']}"
    obs["names"], obs["flags"] = fe["names"], fe["flags"].get(name, [-1, -1])
    base = {"cells": None, "ifile": fe["ifile"], "factor": FACTOR[case["emb"]], "k": case["k"], "path": "select_box",
            "module": name}
    def step(o, state):
        # main(): while last[0] > 0 and q1 > quality: quality = q1; boxes = tmpb; dif = last; solve again
        if not (o["ret"][0] > 0 and o["quality"] > state.get("quality", 0.0)):
            return None
        state["quality"] = o["quality"]
        return o["ret"][0]
    for bound, st, o in _drive(base, 1, step, MAX_ALLOC_LOOP, case.get("proc", "fresh")):
        if not _record(emb, obs, case, bound, st, o, check_input=False):
            break
    ok = [e for e in obs["events"] if "sat" in e]
    obs["complete"] = int(len(ok) == len(obs["events"]) and bool(ok) and ok[-1]["sat"] == 0)
    import shutil
    shutil.rmtree(d, ignore_errors=True)
    return obs


def random_alloc_cases(rng: random.Random, n: int) -> list[dict]:
    """Allocation documents TLC does not enumerate: ratios in tenths, three modules, OVER-occupied cells (0.7 + 0.6,
    1.0 + 1.0, ... : the sum of the ratios of a cell may exceed 1, Allocation deliberately does not assert it), the
    module to normalise allocated with ratio 1 exactly on a k-STOG built here (trunk + abutting branches)."""
    cases = []
    while len(cases) < n:
        nx, ny = rng.choice([(2, 2), (3, 2), (2, 3), (3, 3), (4, 2)])
        xs, ys = [rng.randint(0, 4)], [rng.randint(0, 4)]
        for _ in range(nx):
            xs.append(xs[-1] + rng.choice([1, 1, 2]))
        for _ in range(ny):
            ys.append(ys[-1] + rng.choice([1, 1, 2]))
        box = lambda: (lambda i, j, a, b: (xs[i], ys[j], xs[a], ys[b]))(*(lambda i, j: (i, j, rng.randint(i + 1, nx), rng.randint(j + 1, ny)))(rng.randrange(nx), rng.randrange(ny)))
        trunk = box()
        shape = [trunk]
        for _ in range(rng.randint(0, 2)):
            for _try in range(30):
                b = box()
                ab = ((b[0] == trunk[2] or b[2] == trunk[0]) and trunk[1] <= b[1] and b[3] <= trunk[3]) or \
                     ((b[1] == trunk[3] or b[3] == trunk[1]) and trunk[0] <= b[0] and b[2] <= trunk[2])
                if ab and all(b[2] <= c[0] or c[2] <= b[0] or b[3] <= c[1] or c[3] <= b[1] for c in shape):
                    shape.append(b)
                    break
        alloc, over = [], 0
        for j in range(ny):
            for i in range(nx):
                c = (xs[i], ys[j], xs[i + 1], ys[j + 1])
                hot = any(b[0] <= c[0] and c[2] <= b[2] and b[1] <= c[1] and c[3] <= b[3] for b in shape)
                rat = [10 if hot else rng.choice([-1, 0]), rng.choice([-1, 3, 6, 7, 10]), rng.choice([-1, -1, 5, 10])]
                over += int(sum(v for v in rat if v > 0) > 10)
                alloc.append(list(c) + [0, 0, rat])
        if not over:
            continue
        netlist = rng.choice(["file", "derived"])
        if netlist == "derived":
            alloc = [c[:6] + [[-1 if v == 0 else v for v in c[6]]] for c in alloc]
        cases.append({"kind": "alloc", "alloc": alloc, "mod": 1, "k": len(shape), "den": 10,
                      "cells": [c[:4] + [max(c[6][0], 0)] for c in alloc], "emb": rng.choice(ALL), "path": "select_box",
                      "plan": ["alloc", 1], "netlist": netlist, "stog": 1, "over_occupied_cells": over,
                      "proc": rng.choice(["fresh", "same"]), "form": rng.randrange(64)})
    return cases


def alloc_cases(gen: list[dict], rng: random.Random, n_yes: int = 700, n_no: int = 150) -> list[dict]:
    """(allocation, module, k) records emitted by RectSearch in "alloc" mode -> document pairs for the real front end:
    every record whose module region is a k-STOG (the end-to-end contract applies), a seeded sample of the others."""
    recs = [g for g in gen if g["kind"] == "alloc"]
    yes = [g for g in recs if g["stog"] == 1]
    no = [g for g in recs if g["stog"] == 0]
    yes = rng.sample(yes, min(len(yes), n_yes))
    no = rng.sample(no, min(len(no), n_no))
    cases = []
    for i, g in enumerate(yes + no):
        netlist = "file" if i % 2 == 0 else "derived"
        alloc = g["alloc"]
        if netlist == "derived":
            # without a netlist document get_netlist() derives one from the allocation and divides by the area
            # accumulated so far: a module LISTED with ratio 0.0 in its first cells makes it raise ZeroDivisionError
            # (reported separately, see zero_ratio_probe); here "0 elsewhere" is written as "not listed"
            alloc = [c[:6] + [[-1 if n == 0 else n for n in c[6]]] for c in alloc]
        cases.append({"kind": "alloc", "alloc": alloc, "mod": g["mod"], "cells": g["cells"], "k": g["k"], "den": g["den"],
                      "emb": ALL[i % len(ALL)], "path": "select_box", "plan": ["alloc", 1], "netlist": netlist,
                      "stog": g["stog"], "proc": "same" if i % 4 in (1, 2) else "fresh",
                      "form": (i * 7 + 3) % 64})
    return cases


def zero_ratio_probe(case):
    """Diagnostic (no C08 verdict): get_netlist(None, allocation) on a document that lists the module with ratio 0.0."""
    c = dict(case, netlist="derived")
    obs = run_alloc_case(dict(c, k=1))
    ev = obs["events"][0] if obs["events"] else {}
    return ev.get("exc", "")


# ------------------------------------------------------------------------------------------------ planning
def _grid_cells(xs, ys, occ):
    return [[xs[i], ys[j], xs[i + 1], ys[j + 1], occ[j * (len(xs) - 1) + i]]
            for j in range(len(ys) - 1) for i in range(len(xs) - 1)]


def _plan_best(cells, k, den, fr):
    """Approximate optimum cost (exact lattice weights) -- used ONLY to choose the bounds the random driver asks
    for; every verdict is TLC's."""
    xs = sorted({c[0] for c in cells} | {c[2] for c in cells})
    ys = sorted({c[1] for c in cells} | {c[3] for c in cells})
    boxes = [(a, b, c, d) for i, a in enumerate(xs) for c in xs[i + 1:] for j, b in enumerate(ys) for d in ys[j + 1:]]

    def val(bx):
        v = 0
        for c in cells:
            if bx[0] <= c[0] and c[2] <= bx[2] and bx[1] <= c[1] and c[3] <= bx[3]:
                a = (c[2] - c[0]) * (c[3] - c[1])
                v += 2 * int(fr * c[4] * a / den) - int(fr * a)
        return v
    vals = {b: val(b) for b in boxes}

    def abuts(t, b):
        return ((b[0] == t[2] or b[2] == t[0]) and t[1] <= b[1] and b[3] <= t[3]) or \
               ((b[1] == t[3] or b[3] == t[1]) and t[0] <= b[0] and b[2] <= t[2])

    def disj(a, b):
        return a[2] <= b[0] or b[2] <= a[0] or a[3] <= b[1] or b[3] <= a[1]
    best = None
    for t in boxes:
        br = [b for b in boxes if abuts(t, b)]

        def rec(chosen, start, need, acc):
            nonlocal best
            if need == 0:
                best = acc if best is None else max(best, acc)
                return
            for b in br:
                if all(disj(b, c) for c in chosen):
                    rec(chosen + [b], 0, need - 1, acc + vals[b])
        rec([], 0, k - 1, vals[t])
    return best


def random_cases(rng: random.Random, n: int, tier: str) -> list[dict]:
    """Larger / irregular grids than TLC enumerates: random spacing, origin (also negative), cell order, occupancy
    denominators 2, 4, 10, k up to 4.  quick keeps to 12 cells (16 for k <= 2), thorough goes to 16 (20 for k <= 2):
    TLC recomputes the k-STOGs of every submitted grid."""
    shapes = [(2, 3), (3, 3), (4, 2), (3, 4), (4, 3), (5, 2), (1, 5), (2, 2), (6, 2), (3, 2)]
    if tier == "thorough":
        shapes += [(4, 4), (5, 3), (4, 4), (5, 4), (2, 7), (3, 5)]
    cases = []
    for i in range(n):
        nx, ny = rng.choice(shapes)
        if rng.random() < 0.5:
            nx, ny = ny, nx
        ox, oy = rng.choice([0, 0, 1, 5, -1, -2, -3, 7]), rng.choice([0, 0, 2, 3, -1, -4, 6])
        xs, ys = [ox], [oy]
        for _ in range(nx):
            xs.append(xs[-1] + rng.choice([1, 1, 1, 2, 3]))
        for _ in range(ny):
            ys.append(ys[-1] + rng.choice([1, 1, 1, 2, 3]))
        straddle = rng.random() < 0.12
        if straddle:
            # the origin inside the grid, cells of width 3 on both sides of the lines x = 0 and y = 0: under the
            # float-arithmetic embedding these lines are +0.0 for one neighbour and -0.0 for the other
            xs = [-3, 0, 3] + [3 + i for i in range(1, max(1, nx - 1))]
            ys = [-3, 0, 3] + [3 + j for j in range(1, max(1, ny - 1))]
            nx, ny = len(xs) - 1, len(ys) - 1
        den = rng.choice([2, 2, 4, 10])
        # a blob: high occupancy inside a random union of a trunk and two arms, noise elsewhere
        ci, cj = rng.randrange(nx), rng.randrange(ny)
        hot = set()
        arms = [(rng.randint(0, ci), rng.randint(ci, nx - 1), rng.randint(0, cj), rng.randint(cj, ny - 1)),
                (ci, ci, 0, rng.randrange(ny)), (rng.randrange(nx), nx - 1, cj, cj)]
        for (i0, i1, j0, j1) in arms[:rng.randint(1, 3)]:
            hot |= {(a, b) for a in range(min(i0, i1), max(i0, i1) + 1) for b in range(min(j0, j1), max(j0, j1) + 1)}
        occ = []
        for j in range(ny):
            for a in range(nx):
                occ.append(rng.choice([den, den, den - 1, (den + 1) // 2]) if (a, j) in hot
                           else rng.choice([0, 0, 0, 1, den // 2]))
        if not any(occ):
            occ[0] = den
        cells = _grid_cells(xs, ys, occ)
        rng.shuffle(cells)                                   # input_problem order is arbitrary
        ncell = nx * ny
        k = (rng.choice([1, 2, 3, 3, 4]) if ncell <= 9 else rng.choice([1, 2, 3, 3]) if ncell <= (12 if tier == "quick" else 16)
             else rng.choice([1, 2, 2]))
        emb = "decmul" if straddle else rng.choice(ALL)
        path = "select_box" if rng.random() < 0.5 else "direct"
        fr = F(FACTOR[emb]) * EMBEDDINGS[emb].step ** 2
        best = _plan_best(cells, k, den, fr)
        if best is None:
            plan = ["single", rng.choice([VACUOUS, 0, 1])]
        else:
            mode = rng.randrange(6)
            plan = (["loop", best - rng.choice([1, 2, 5])] if mode < 3 else
                    ["single", best // 2] if mode == 3 else
                    ["single", best + rng.choice([1, 2])] if mode == 4 else
                    ["single", VACUOUS if ncell <= 12 else best - 3])
        cases.append({"kind": "random", "cells": cells, "k": k, "den": den, "emb": emb, "path": path, "plan": plan,
                      "proc": rng.choice(["fresh", "same"]) if plan[0] == "loop" else "fresh"})
    return cases


def tlc_cases(gen: list[dict], tier: str, rng: random.Random) -> list[dict]:
    """(grid, k) and (grid, occupancy, k, optimum) records emitted by RectSearch -> calls of the real code."""
    cases = []
    si = 0
    for g in gen:
        base = {"kind": g["kind"], "cells": g["cells"], "k": g["k"], "den": g["den"]}
        if g["kind"] == "models":
            # the whole model set (vacuous bound) under every embedding, cells given as corners (direct) and as
            # centre/size documents through rect_io.select_box
            occ = [(c[0] + 2 * c[1]) % (g["den"] + 1) for c in g["cells"]]
            if not any(occ):
                occ[0] = g["den"]
            cells = [c[:4] + [o] for c, o in zip(g["cells"], occ)]
            for en in ALL:
                cases.append(dict(base, cells=cells, emb=en, path="direct", plan=["single", VACUOUS]))
            for en in ALL:
                cases.append(dict(base, cells=cells, emb=en, path="select_box", plan=["single", VACUOUS]))
            cases.append(dict(base, cells=cells[::-1], emb="flt", path="direct", plan=["single", VACUOUS]))
        elif g["kind"] == "solve":
            si += 1
            # input_problem order is arbitrary: as emitted (row-major), reversed, interleaved (far cells first)
            cs = g["cells"]
            cs = cs if si % 3 == 0 else cs[::-1] if si % 3 == 1 else cs[1::2][::-1] + cs[0::2]
            base = dict(base, cells=cs)
            embs = [ALL[si % len(ALL)]] if tier == "quick" or len(g["cells"]) >= 9 else [ALL[si % len(ALL)], ALL[(si + 3) % len(ALL)]]
            for en in embs:
                path = "select_box" if si % 3 == 0 else "direct"
                if g["nshapes"] == 0:
                    cases.append(dict(base, emb=en, path=path, plan=["single", 0]))
                    continue
                # TLC computed the optimum for cell weights floor(fnum/fden * p * area / den); under this embedding
                # the weights are floor(factor * step^2 * p * area / den): the same up to the scale (exactly for
                # the exact embeddings -- den = 2 and fnum/fden = 100 make every weight an integer before floor --
                # and up to the truncation of each cell weight otherwise, hence the slack)
                scale = F(FACTOR[en]) * EMBEDDINGS[en].step ** 2 / F(g["fnum"], g["fden"])
                best = int(g["best"] * scale) if g["best"] >= 0 else -int(-g["best"] * scale)
                slack = 0 if en in EXACT else 3 * len(g["cells"]) + 1
                # the loop across the sat/unsat boundary: alternately one fresh process per call, and all calls in
                # one process (as rect.main() runs it)
                cases.append(dict(base, emb=en, path=path, plan=["loop", best - 1 - slack],
                                  proc="same" if si % 2 == 0 else "fresh"))
                if si % 5 == 0:       # a bound well below the optimum: a large model set cut by the cost constraint
                    cases.append(dict(base, emb=en, path=path, plan=["single", best // 2]))
                if si % 7 == 0:       # at the optimum
                    cases.append(dict(base, emb=en, path=path, plan=["single", best]))
    return cases


# ------------------------------------------------------------------------------------------------ judging
def _features(case, clause):
    emb = EMBEDDINGS[case["emb"]]
    x0, x1 = min(c[0] for c in case["cells"]), max(c[2] for c in case["cells"])
    y0, y1 = min(c[1] for c in case["cells"]), max(c[3] for c in case["cells"])
    fx0, fx1, fy0, fy1 = emb.coord(x0), emb.coord(x1), emb.coord(y0), emb.coord(y1)
    origin0 = int(fx0 == 0 and fy0 == 0)
    intsize = int(float(emb.length(x1 - x0)).is_integer() and float(emb.length(y1 - y0)).is_integer())
    # do the literals enforce_bb compares with (0, int(Width), int(Height)) coincide with the grid's border?
    lit = int(fx0 == 0 and fy0 == 0 and fx1 == int(emb.length(x1 - x0)) and fy1 == int(emb.length(y1 - y0)))
    # do the corners select_box rebuilds (centre -/+ size/2) of neighbouring cells still coincide as floats?
    shared = 1
    if case["path"] == "select_box":
        rs = [emb.rect(c) for c in case["cells"]]
        nx = len({c[0] for c in case["cells"]} | {c[2] for c in case["cells"]})
        ny = len({c[1] for c in case["cells"]} | {c[3] for c in case["cells"]})
        gx = {r[0] - float(r[2]) / 2 for r in rs} | {r[0] + float(r[2]) / 2 for r in rs}
        gy = {r[1] - float(r[3]) / 2 for r in rs} | {r[1] + float(r[3]) / 2 for r in rs}
        shared = int(len(gx) == nx and len(gy) == ny)
    return {"clause": clause, "embedding": case["emb"], "k": case["k"], "path": case["path"],
            "process": case.get("proc", "fresh"), "origin0": origin0,
            "integer_size": intsize, "border_literals_match_grid": lit, "shared_corners": shared}


def decide(ctx: Ctx, cases: list[dict]):
    prepare_imports()
    import matplotlib  # noqa: F401
    import tools.rect.rect  # noqa: F401  (imported in the parent, used only in forked children)
    import tools.rect.rect_io  # noqa: F401
    import pysat.solvers  # noqa: F401
    results = run_cases(run_case, cases, nproc=16, case_timeout=900)
    traces, owners = {}, {}
    for c, (st, obs) in zip(cases, results):
        pub = {k: c[k] for k in PUB if k in c}
        if st != "ok":
            ctx.violation("no_result", pub, {"status": st}, _features(c, "no_result"))
            continue
        evs = []
        for ev in obs["events"]:
            ctx.count()
            if "sat" in ev:
                evs.append(ev)
                continue
            clause = "raises" if "exc" in ev else "off_lattice" if "off" in ev else "no_result"
            ctx.violation(clause, pub, {k: v for k, v in ev.items()}, _features(c, clause))
        if not evs:
            continue
        emb = EMBEDDINGS[c["emb"]]
        fr = F(FACTOR[c["emb"]]) * emb.step ** 2
        exact = int(c["emb"] in EXACT and c["den"] in (1, 2, 4, 8))
        t = {"cells": c["cells"], "k": c["k"], "den": c["den"], "ratio": int(RATIO), "fnum": fr.numerator,
             "fden": fr.denominator, "exact": exact, "xs": obs["xs"], "ys": obs["ys"],
             "wsel": obs["wsel"], "wreal": obs["wreal"], "events": evs,
             # front end (kind "alloc"): the allocation, the module, the InputProblem select_box produced, and whether
             # the improvement loop ran to its end (last call unsat)
             "proc": c.get("proc", "fresh"), "kind": "alloc" if c["kind"] == "alloc" else "plain", "alloc": obs.get("alloc_written", []), "mod": c.get("mod", 0),
             "inp": obs.get("inp", []), "complete": obs.get("complete", 0),
             "found": int(c["kind"] != "alloc" or (f"M{c.get('mod')}" in obs.get("names", []) and obs.get("flags") == [0, 0]))}
        key = digest(t)
        if key not in traces:
            t["id"] = key
            traces[key] = t
            owners[key] = []
        owners[key].append(c)
    verdicts = tlc.validate_traces(ctx, "RectSearchTrace", "RectSearchTrace", list(traces.values()), chunk=1500)
    for key, v in verdicts.items():
        t = traces[key]
        nontrivial = any(e["sat"] == 1 or e["models"] for e in t["events"])
        ctx.count(digest([t["cells"], t["k"], t["den"]]), nontrivial=nontrivial, n=0)
        info = {i["l"]: i for i in v.get("info", [])}
        for (l, clause) in v["fails"]:
            for c in owners[key]:
                pub = {k: c[k] for k in PUB if k in c}
                if l == 0:
                    detail = {"wsel": t["wsel"], "wreal": t["wreal"], "fnum": t["fnum"], "fden": t["fden"], "inp": t["inp"]}
                elif l > len(t["events"]):
                    detail = {"final_boxes": next((e["rects"] for e in reversed(t["events"]) if e["sat"]), []),
                              "calls": len(t["events"])}
                else:
                    e = t["events"][l - 1]
                    detail = {"call": l, "bound": e["bound"], "sat": e["sat"], "rects": e["rects"], "ret": e["ret"],
                              "n_models": len(e["models"]), "model_set": info.get(l)}
                ctx.violation(clause, pub, detail, _features(c, clause))
        for (l, what) in v["drift"]:
            if what == "input_is_grid":
                raise MachineryError(f"the harness submitted cells that are not a grid: {t['cells']}")
            ctx.model_drift(f"{what}: observed value differs from the model's (property clauses hold)")
    for t in list(traces.values())[:4]:
        s = dict(t)
        s["events"] = [dict(e, models=e["models"][:3] + (["..."] if len(e["models"]) > 3 else [])) for e in t["events"]]
        ctx.sample({"trace": s, "embeddings": sorted({c["emb"] for c in owners[t["id"]]})})
    loops = [(k, t) for k, t in traces.items() if any(c["plan"][0] == "loop" for c in owners[k])]
    ctx.extra["loops"] = len(loops)
    ctx.extra["loops_same_process"] = sum(1 for k, t in loops if t["proc"] == "same")
    ctx.extra["calls_after_an_earlier_call_in_the_same_process"] = sum(
        len(t["events"]) - 1 for t in traces.values() if t["proc"] == "same" and len(t["events"]) > 1)
    ctx.extra["loops_ending_unsat_after_sat"] = sum(1 for k, t in loops if len(t["events"]) > 1 and t["events"][-1]["sat"] == 0)
    ctx.extra["calls_sat"] = sum(e["sat"] for t in traces.values() for e in t["events"])
    ctx.extra["calls_unsat"] = sum(1 - e["sat"] for t in traces.values() for e in t["events"])
    al = [(k, t) for k, t in traces.items() if t["kind"] == "alloc"]
    if al:
        own = lambda k: owners[k][0]
        ctx.extra["from_allocation"] = {
            "documents": sum(len(owners[k]) for k, _ in al),
            "traces": len(al),
            "netlist_file": sum(1 for k, _ in al if own(k)["netlist"] == "file"),
            "netlist_derived": sum(1 for k, _ in al if own(k)["netlist"] == "derived"),
            "solve_calls": sum(len(t["events"]) for _, t in al),
            "loops_run_to_unsat": sum(t["complete"] for _, t in al),
            "front_end_clauses_judged": len(al),
            "end_to_end_contract_applied": sum(1 for k, t in al if own(k).get("stog") == 1 and t["complete"] == 1),
            "module_region_not_a_kstog": sum(1 for k, _ in al if own(k).get("stog") == 0),
            "documents_with_integer_ratios": sum(1 for k, _ in al if own(k).get("form", 0) & 1),
            "documents_in_block_style": sum(1 for k, _ in al if own(k).get("form", 0) & 8),
            "documents_passed_as_text": sum(1 for k, _ in al if own(k).get("form", 0) & 16),
            "documents_with_over_occupied_cells": sum(
                1 for _, t in al if any(sum(v for v in c[6] if v > 0) > t["den"] for c in t["alloc"])),
            "embeddings": sorted({own(k)["emb"] for k, _ in al}),
            "grids": sorted({f"{len(t['xs']) - 1}x{len(t['ys']) - 1}" for _, t in al}),
        }
    ctx.extra["traces_distinct"] = len(traces)
    ctx.extra["solve_calls"] = sum(len(t["events"]) * len(owners[k]) for k, t in traces.items())
    ctx.extra["models_enumerated"] = sum(len(e["models"]) * len(owners[k]) for k, t in traces.items() for e in t["events"])


def _model_check(ctx: Ctx, cfg: str, ignore=()):
    """tlc.model_check, with the vacuity rule applied to TLC's FINAL coverage dump only: with -coverage 1 TLC also
    prints interim dumps every minute, in which actions deeper than the current BFS level still count 0 (a run
    longer than a minute would otherwise be reported as vacuous)."""
    res = tlc.run_tlc(ctx, "RectSearch", cfg, coverage=True, tag="mc")
    ctx.states += res["distinct"]
    ctx.transitions += res["generated"]
    final = {}
    for name, cnt, _d in res.get("coverage", []):
        final[name] = cnt                      # later dumps overwrite earlier ones
    zero = sorted(n for n, c in final.items() if c == 0 and n != "Init" and n not in ignore)
    if zero:
        raise MachineryError(f"vacuous model: actions never taken in RectSearch/{cfg}: {zero}")
    return res


def run(ctx: Ctx) -> int:
    if ctx.replay:
        rec = json.load(open(ctx.replay))
        c = dict(rec["case"])
        c.setdefault("kind", "replay")
        decide(ctx, [c])
        return ctx.finish("model_checking", "replay of one recorded case")
    tier = ctx.tier
    _model_check(ctx, f"RectSearch_mc_{tier}", ignore=("EmitGrid", "EmitSolve", "EmitAlloc") + (() if tier == "quick" else ("LoadAllocation",)))
    if tier == "thorough":
        _model_check(ctx, "RectSearch_mc_k4", ignore=("EmitGrid", "EmitSolve", "EmitAlloc", "LoadAllocation", "Start", "Call", "Iterate", "Stop"))
    # negative run: the border exclusions as implemented today break EncSound at the design level
    neg = tlc.run_tlc(ctx, "RectSearch", "RectSearch_mc_defect", expect_ok=False, tag="negative")
    if "Invariant EncSound is violated" not in neg["stdout"]:
        raise MachineryError("RectSearch_mc_defect: TLC did not find the expected violation of EncSound "
                             "(the specification no longer distinguishes the border exclusions)")
    gen = tlc.generate(ctx, "RectSearch", f"RectSearch_gen_{tier}")
    rng = random.Random(ctx.seed * 1000003 + 8)
    if tier == "thorough":
        # the 3^9 occupancies of the 3x3 grid are all model-checked for the optimum; a seeded third of them is replayed
        big = [g for g in gen if g["kind"] == "solve" and len(g["cells"]) >= 9]
        keep = set(id(g) for g in rng.sample(big, min(len(big), 6000)))
        gen = [g for g in gen if not (g["kind"] == "solve" and len(g["cells"]) >= 9) or id(g) in keep]
    cases = tlc_cases(gen, tier, rng)
    n_tlc = len(cases)
    cases += random_cases(rng, 150 if tier == "quick" else 1000, tier)
    n_random = len(cases) - n_tlc
    probes = []
    # growth: the front end of the rect stage (Allocation YAML + netlist YAML -> rect_io -> improvement loop); a slice of
    # it in the quick tier, the full universe in thorough
    if tier == "thorough":
        _model_check(ctx, "RectSearch_mc_alloc", ignore=("EmitGrid", "EmitSolve", "EmitAlloc", "ChooseTrunk", "AddBranch", "EncBox", "Close"))
        ac = alloc_cases(gen, rng) + random_alloc_cases(rng, 300)
        probes = [c for c in ac if c["netlist"] == "file" and c["stog"] == 1][:24]
    else:
        ac = alloc_cases(gen, rng, 48, 12) + random_alloc_cases(rng, 30)
    cases += ac
    decide(ctx, cases)
    if probes:
        out = run_cases(zero_ratio_probe, probes, nproc=8)
        hits = [v for st, v in out if st == "ok" and v]
        ctx.extra["from_allocation"]["zero_ratio_probe"] = {
            "what": "get_netlist(None, allocation) on documents that list the module with ratio 0.0 (diagnostic, no C08 verdict)",
            "documents": len(probes), "raised": len(hits), "sample": hits[:1]}
    ctx.extra["embeddings"] = ALL
    ctx.extra["cases_from_tlc"] = n_tlc
    ctx.extra["cases_random"] = n_random
    ctx.extra["cases_from_allocation"] = len(cases) - n_tlc - n_random
    ctx.assumptions += [
        "float dimension sampled by 8 embeddings of the integer lattice (steps 1, 1.0, 1/2, 1/10, 1/3, 1e3, 1e-3, 0.1+37.3), not enumerated",
        "rect.Carrier() cannot be constructed on Linux (Windows DLL): the carrier is a SimpleNamespace with the same fields, filled by the real definecoords(); ifile['Width'/'Height'] = bounding box of the grid, as get_alloc() computes it",
        "process history: every solve() call is judged as a first call; calls run one per fresh process, and (half of the sat/unsat boundary loops, half of the allocation loops) all calls of a loop in ONE process as rect.main() runs them; longer histories across modules / other tools are C20's subject",
        "minimum-error mode: ratio 2.0; a module to normalise occupies something (all-zero occupancy is outside the quantifier: main() never asks for it and solve() divides by the total occupied area)",
        "grids are given both as corner tuples (input_problem, corners shared exactly) and as centre/size documents through rect_io.select_box (what get_alloc() produces from an allocation file), under every embedding",
        "from_allocation: rect.main() cannot run on Linux (Carrier() loads the greedy seed from a Windows DLL), so its improvement loop is re-implemented in the harness around the real solve(), started at dif = (1, 1) instead of the greedy one-box optimum; allocation documents have non-negative coordinates (FRAME's rectangle reader rejects negative centres)",
        "cost = ratio * occupied area - area over the integer cell weights rect.area() returns; the weights themselves are checked against the lattice areas up to the int() truncation",
    ]
    return ctx.finish(
        "model_checking",
        "TLC enumerates every k-STOG of every grid of the universe (Gen), checks it against the declarative definition and "
        "against the model of enforce_bb's constraints (Enc), and enumerates all occupancies for the solve loop; "
        "evaluations = solve() calls on the real code (each with the complete projected model set of its CNF); "
        "distinct = distinct (grid, occupancy, k) lattice cases judged by TLC; non-trivial = at least one model / a shape returned",
        exhaustive=False)
