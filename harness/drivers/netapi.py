"""NETAPI -- the loaded Netlist / Module as a mutable object with derived, partly cached views (extra engine).

TLC (NetApi) enumerates every sequence of public calls of length <= 3 (quick) / 4 (thorough) on three small netlists
(soft without / with rectangles, hard, fixed, terminal), proves on the model that every call has its documented effect,
that the views are functions of the current state, that reading and writing are pure, that a normal state written and
read back is the same design, and that the coherent memo discipline keeps every cached view right (and, as an expected
failure, that the discipline of the code as it stands does not: NetApi_asis.cfg).  It then emits the sequences.

Each sequence is replayed on a real frame.netlist.Netlist twice: reading ALL views after every call, and reading NO
view until the end (a stale memo may only show when the view was, or was not, read earlier).  Around every call the
abstract state is read off the object through plain attributes; each distinct observed step
(pre, call, returned value, post, views, state after the views) is judged once by TLC (NetApiTrace).
A seeded random driver adds longer sequences on larger documents.
"""
from __future__ import annotations

import json
import random
from fractions import Fraction as F

from ..core import Ctx, MachineryError, canon, digest
from ..forkpool import prepare_imports, run_cases
from ..lattice import ALL, EMBEDDINGS, OffLattice
from .. import tlc
from .c04 import (GROUND, _region_in, back_area_int, back_coord_rat, back_dimless, fix_json, random_doc, to_text, to_tree)

MODULE_OPS = {"set_center", "set_fixed", "add_rectangle", "clear_rectangles", "create_square", "recenter_rectangles", "calc_center"}
ALL_OPS = MODULE_OPS | {"create_squares", "assign_rectangles", "create_stogs", "write_yaml", "read_views"}
NOARG = {"i": 0, "c": [], "r": [], "v": 0, "m2r": []}
_LOC = {"TRUNK": "T", "NORTH": "N", "SOUTH": "S", "EAST": "E", "WEST": "W", "NO_POLYGON": "no"}


# ------------------------------------------------------------------------------------------------ observation
def _rect8(emb, r) -> list:
    return emb.back_rectangle(r) + [_region_in(r.region), int(bool(r.fixed)), int(bool(r.hard)), _LOC[r.location.name]]


def observe_state(nl, emb) -> dict:
    """the abstract state, through plain attributes only (nothing here fills or consults a memo)"""
    mods = []
    for m in nl.modules:
        c = m.center
        mods.append({"name": m.name,
                     "kind": [int(bool(m.is_hard)), int(bool(m.is_fixed)), int(bool(m.is_terminal)), int(bool(m.flip))],
                     "areas": [[_region_in(reg), back_area_int(emb, v)] for reg, v in m.area_regions.items()],
                     "center": [] if c is None else back_coord_rat(emb, c.x) + back_coord_rat(emb, c.y),
                     "rects": [_rect8(emb, r) for r in m.rectangles]})
    nets = [{"pins": [b.name for b in e.modules], "w": back_dimless(e.weight)} for e in nl.edges]
    return {"mods": mods, "nets": nets}


def read_views(nl, emb) -> dict:
    """every derived view; the module-level ones first, the netlist's rectangle list (which may rebuild itself) last"""
    step = float(emb.step)
    v = {"area_rectangles": [back_area_int(emb, m.area_rectangles) for m in nl.modules],
         "area": [back_area_int(emb, m.area()) for m in nl.modules],
         "has_stog": [int(bool(m.has_stog)) for m in nl.modules],
         "all_soft_have_stogs": int(bool(nl.all_soft_modules_have_stogs()))}
    try:
        v["wire_length"] = int(round(100.0 * float(nl.wire_length) / step))
    except AssertionError:
        v["wire_length"] = -1
    v["rectangles"] = [_rect8(emb, r) for r in nl.rectangles]
    v["num_rectangles"] = int(nl.num_rectangles)
    v["fixed_rectangles"] = [_rect8(emb, r) for r in nl.fixed_rectangles()]
    return v


def _cores(state: dict) -> list:
    return sorted(tuple(r[:5]) for m in state["mods"] for r in m["rects"])


def _full(state: dict) -> list:
    return sorted(tuple(r) for m in state["mods"] for r in m["rects"])


def _areas(state: dict) -> list:
    return [sum((r[2] - r[0]) * (r[3] - r[1]) for r in m["rects"]) for m in state["mods"]]


def _safe_state(nl, emb):
    try:
        return 1, observe_state(nl, emb)
    except OffLattice:
        return 0, None


# ------------------------------------------------------------------------------------------------ the calls
def call(nl, emb, op: str, a: dict):
    """perform one public call; returns the lattice image of what it returned"""
    from frame.geometry.geometry import Point, Rectangle, Shape
    if op == "create_squares":
        return [m.name for m in nl.create_squares()]
    if op == "create_stogs":
        nl.create_stogs(); return []
    if op == "assign_rectangles":
        m2r = {}
        for name, rs in a["m2r"]:
            lst = []
            for t in rs:
                q = emb.rect(t)
                if t[4] != GROUND:
                    q.append(t[4])
                lst.append(q)
            m2r[name] = lst
        nl.assign_rectangles(m2r); return []
    if op == "write_yaml":
        return nl.write_yaml()
    if op == "read_views":
        return []
    m = nl.modules[a["i"] - 1]
    if op == "set_center":
        c = a["c"]
        m.center = Point(emb.coord(F(c[0], c[1])), emb.coord(F(c[2], c[3]))); return []
    if op == "set_fixed":
        m.is_fixed = bool(a["v"]); return []
    if op == "add_rectangle":
        cx, cy, w, h = emb.rect(a["r"])
        kw = {"center": Point(cx, cy), "shape": Shape(w, h), "fixed": bool(m.is_fixed), "hard": bool(m.is_hard)}
        if a["r"][4] != GROUND:
            kw["region"] = a["r"][4]
        m.add_rectangle(Rectangle(**kw)); return []
    if op == "clear_rectangles":
        m.clear_rectangles(); return []
    if op == "create_square":
        m.create_square(); return []
    if op == "recenter_rectangles":
        m.recenter_rectangles(); return []
    if op == "calc_center":
        p = m.calculate_center_from_rectangles()
        return back_coord_rat(emb, p.x) + back_coord_rat(emb, p.y)
    raise MachineryError(f"unknown call {op}")


def reload_state(text: str, emb) -> dict:
    """Netlist(text) in the same process without disturbing the tolerance registers of the object under test"""
    from frame.netlist.netlist import Netlist
    from frame.geometry.geometry import Rectangle
    # (public accessors only: a refactoring may move the registers)
    saved = (Rectangle.distance_epsilon(), Rectangle.area_epsilon()) if Rectangle.epsilon_defined() else None
    Rectangle.undefine_epsilon()
    try:
        n2 = Netlist(text)
        try:
            return {"acc": 1, "state": observe_state(n2, emb)}
        except OffLattice:
            return {"acc": 0, "state": {"mods": [], "nets": []}}
    except Exception:
        return {"acc": 0, "state": {"mods": [], "nets": []}}
    finally:
        Rectangle.undefine_epsilon()
        if saved is not None:
            Rectangle.set_epsilon(*saved)


def run_case(case: dict) -> list:
    """replay one action sequence in one mode under one embedding -> list of step observations"""
    from frame.netlist.netlist import Netlist
    from frame.geometry.geometry import Rectangle
    emb = EMBEDDINGS[case["emb"]]
    allviews = case["mode"] == "all"
    Rectangle.undefine_epsilon()
    nl = Netlist(to_tree(case["doc"], emb))
    ok, pre = _safe_state(nl, emb)
    steps = []
    if not ok:
        return steps
    seq = list(case["steps"])
    if not allviews:
        seq.append({"op": "read_views", "arg": NOARG})
    # bookkeeping used ONLY to label failures for known-finding matching (never to decide anything):
    # the rectangle areas seen so far (and, at each view read, whether the netlist memo was empty / holds the modules' own objects)
    past_areas = [_areas(pre)]
    module_change = False     # a Module-level change of a rectangle list since the netlist memo was last built
    for k, s in enumerate(seq):
        op, a = s["op"], s["arg"]
        rec = {"pre": pre, "op": op, "arg": a, "raised": 0, "ret": [], "postok": 1, "post": pre, "hasviews": 0,
               "post2ok": 1, "post2": pre, "k": k}
        text = None
        try:
            ret = call(nl, emb, op, a)
            if op == "write_yaml":
                text, ret = ret, []
            rec["ret"] = ret
        except OffLattice:
            rec["postok"] = 0
        except Exception as e:      # judged by TLC: a violation only if the call's documented precondition held
            rec["raised"] = 1
            rec["exc"] = f"{type(e).__name__}: {str(e)[:100]}"
        ok, post = _safe_state(nl, emb)
        if not ok:
            rec["postok"] = 0
            steps.append(rec)
            break
        rec["post"] = post
        rec["post2"] = post
        if text is not None:
            rec["reload"] = reload_state(text, emb)
        rec["x_dropped"] = False
        if op in ("add_rectangle", "clear_rectangles", "create_square") and not rec["raised"]:
            module_change = True
        if (allviews or op == "read_views") and not rec["raised"]:
            rec["hasviews"] = 1
            rec["x_dropped"] = getattr(nl, "_rectangles", 0) is None      # labelling only: was the netlist memo empty?
            try:
                rec["views"] = read_views(nl, emb)
                held = sorted(id(r) for m in nl.modules for r in m.rectangles)
                rec["x_same_objects"] = sorted(id(r) for r in nl.rectangles) == held
            except OffLattice:
                rec["hasviews"] = 0
            except Exception as e:
                rec["hasviews"] = 0
                rec["view_exc"] = f"{type(e).__name__}: {str(e)[:100]}"
            ok2, post2 = _safe_state(nl, emb)
            rec["post2ok"] = int(ok2)
            if ok2:
                rec["post2"] = post2
            else:
                steps.append(rec)
                break
            if rec["hasviews"]:
                vl = sorted(tuple(r[:5]) for r in rec["views"]["rectangles"])
                vfull = sorted(map(tuple, rec["views"]["rectangles"]))
                rec["x_rect_view"] = ("current" if vfull == _full(post) else
                                      "stale_list_after_module_level_change" if not rec.get("x_same_objects", True) and module_change else
                                      "state_after_reading" if rec.get("x_same_objects", True) and vfull == _full(post2) else "other")
                if rec["x_dropped"]:
                    module_change = False        # the memo has just been rebuilt from the modules
                rec["x_area_view"] = ["current" if a == b else
                                      "old_area_of_emptied_module" if not post["mods"][i]["rects"] and any(a == old[i] for old in past_areas if i < len(old))
                                      else "other"
                                      for i, (a, b) in enumerate(zip(rec["views"]["area_rectangles"], _areas(post)))]
        steps.append(rec)
        pre = rec["post2"]
        past_areas.append(_areas(rec["post"]))
    return steps


# ------------------------------------------------------------------------------------------------ random sequences
def api_doc(rng: random.Random) -> dict:
    """a random document whose numbers keep the API on the lattice: even square sides, integer centres, no aspect ratio"""
    for _ in range(200):
        d = random_doc(rng)
        for m in d["mods"]:
            m["aspect"] = {"form": "none", "v": []}
            if m["area"]["form"] != "none":
                s = rng.choice([2, 4, 6])
                m["area"] = {"form": "s", "ent": [[GROUND, s * s]]}
            if m["center"]:
                m["center"] = [rng.randint(4, 56), 1, rng.randint(4, 56), 1]
            m["flags"]["flip"] = -1 if m["flags"]["flip"] == 1 else m["flags"]["flip"]
            m["rects"]["rs"] = [[2 * (c // 2) if i < 4 else c for i, c in enumerate(r)] for r in m["rects"]["rs"]]
            m["rects"]["rs"] = [r for r in m["rects"]["rs"] if r[2] > r[0] and r[3] > r[1]]
            if not m["rects"]["rs"]:
                m["rects"] = {"form": "none", "rs": []}
        hard_ok = all(m["rects"]["rs"] for m in d["mods"] if m["flags"]["hard"] == 1 or (m["flags"]["fixed"] == 1 and m["flags"]["terminal"] != 1))
        if hard_ok and len(d["mods"]) <= 4:
            return d
    raise MachineryError("no suitable random document")


def random_steps(rng: random.Random, doc: dict, n: int) -> list:
    names = [m["name"] for m in doc["mods"]]
    term = [m["flags"]["terminal"] == 1 for m in doc["mods"]]
    steps = []
    for _ in range(n):
        op = rng.choice(["create_squares", "create_stogs", "write_yaml", "read_views", "assign_rectangles", "assign_rectangles",
                         "set_center", "set_center", "set_fixed", "add_rectangle", "add_rectangle", "clear_rectangles",
                         "create_square", "recenter_rectangles", "calc_center", "calc_center"])
        a = dict(NOARG)
        cand = [i + 1 for i, t in enumerate(term) if not t] or [1]
        if op in MODULE_OPS:
            a["i"] = rng.choice(cand)
        if op == "set_center":
            a["c"] = [2 * rng.randint(2, 28), 1, 2 * rng.randint(2, 28), 1]
        if op == "set_fixed":
            a["v"] = rng.randint(0, 1)
        if op == "add_rectangle":
            x, y = 2 * rng.randint(0, 25), 2 * rng.randint(0, 25)
            a["r"] = [x, y, x + 2 * rng.randint(1, 4), y + 2 * rng.randint(1, 4), GROUND]
        if op == "assign_rectangles":
            m2r = []
            for i in rng.sample(cand, min(len(cand), rng.randint(1, 2))):
                rs = []
                x, y = 2 * rng.randint(0, 20), 2 * rng.randint(0, 20)
                for _k in range(rng.randint(0, 3)):
                    w, h = 2 * rng.randint(1, 4), 2 * rng.randint(1, 4)
                    rs.append([x, y, x + w, y + h, GROUND])
                    x += w
                m2r.append([names[i - 1], rs])
            a["m2r"] = m2r
        steps.append({"op": op, "arg": a})
    return steps


# ------------------------------------------------------------------------------------------------ deciding
_PRIVATE = ("k", "exc", "view_exc", "x_dropped", "x_rect_view", "x_area_view", "x_same_objects")


def step_features(rec: dict, fail: str) -> dict:
    """labels for known-finding matching (never a verdict)"""
    f = {"op": rec["op"], "mode": rec.get("mode", ""), "clause": fail}
    pre = rec["pre"]
    if rec["op"] == "create_stogs":
        f["some_module_without_rectangles"] = any(not m["rects"] for m in pre["mods"])
    if fail in ("v_rectangles", "v_num_rectangles", "v_fixed_rectangles"):
        # which rectangle list the netlist answered with: the current one, the one its own rebuild left behind, or an old one
        f["answered_with"] = rec.get("x_rect_view", "other")
    if fail == "v_area_rectangles":
        kinds = set(rec.get("x_area_view", ["other"])) - {"current"}
        f["answered_with"] = "old_area_of_emptied_module" if kinds == {"old_area_of_emptied_module"} else "other"
    if fail == "view_pure":
        f["memo_dropped_before"] = bool(rec.get("x_dropped", False))
    if fail == "view_pure":
        p, q = rec["post"], rec["post2"]
        changed = set()
        for a, b in zip(p["mods"], q["mods"]):
            if a["center"] != b["center"]:
                changed.add("center")
            if [r[:7] for r in a["rects"]] != [r[:7] for r in b["rects"]]:
                changed.add("rects")
            elif [r[7] for r in a["rects"]] != [r[7] for r in b["rects"]]:
                changed.add("location")
        f["changed"] = "+".join(sorted(changed)) or "other"
    return f


def decide(ctx: Ctx, cases: list[dict]):
    prepare_imports()
    import frame.netlist.netlist  # noqa: F401
    results = run_cases(run_case, cases, nproc=16)
    steps, origin = {}, {}
    nsteps = 0
    for c, (st, val) in zip(cases, results):
        if st != "ok":
            ctx.violation("no_result", {"doc": c["doc"], "steps": c["steps"], "mode": c["mode"], "embedding": c["emb"]}, {"status": st},
                          {"op": "", "mode": c["mode"], "clause": "no_result"})
            continue
        for rec in val:
            nsteps += 1
            t = {k: v for k, v in rec.items() if k not in _PRIVATE}
            key = digest(t)
            if key not in steps:
                t["id"] = key
                steps[key] = t
                origin[key] = {"doc": c["doc"], "steps": c["steps"][:rec["k"] + 1], "mode": c["mode"], "embedding": c["emb"],
                               "exc": rec.get("exc", ""), "view_exc": rec.get("view_exc", ""),
                               "x": {x: rec[x] for x in ("x_dropped", "x_rect_view", "x_area_view") if x in rec}}
    ctx.count(n=nsteps)
    verdicts = tlc.validate_traces(ctx, "NetApiTrace", "NetApiTrace", [steps[k] for k in sorted(steps)], chunk=6000)
    unjudged = {"call_outside_documented_precondition": 0, "write_yaml_of_a_state_without_document": 0}
    for key in sorted(verdicts):
        v, t, o = verdicts[key], steps[key], origin[key]
        ctx.count(key, nontrivial=t["op"] != "read_views" or t["hasviews"] == 1, n=0)
        rec = dict(t); rec["mode"] = o["mode"]; rec.update(o["x"])
        for clause in sorted(v["fails"]):
            detail = {"op": t["op"], "arg": t["arg"], "mode": o["mode"], "embedding": o["embedding"], "exception": o["exc"]}
            if clause.startswith("v_"):
                name = clause[2:]
                detail["view"] = t["views"].get(name)
                detail["state"] = {"rects": [m["rects"] for m in t["post"]["mods"]], "center": [m["center"] for m in t["post"]["mods"]]}
            if clause == "view_pure":
                detail["before_views"] = {"center": [m["center"] for m in t["post"]["mods"]], "rects": [m["rects"] for m in t["post"]["mods"]]}
                detail["after_views"] = {"center": [m["center"] for m in t["post2"]["mods"]], "rects": [m["rects"] for m in t["post2"]["mods"]]}
            if clause == "effect":
                detail["pre"] = t["pre"]["mods"]; detail["post"] = t["post"]["mods"]; detail["ret"] = t["ret"]
            ctx.violation(clause, {k: o[k] for k in ("doc", "steps", "mode", "embedding")}, detail, step_features(rec, clause))
        for what in sorted(v["drift"]):
            if what in unjudged:
                unjudged[what] += 1
            else:
                ctx.model_drift(f"{t['op']}: {what}")
    for k in sorted(steps)[:3]:
        ctx.sample({"step": {x: steps[k][x] for x in ("pre", "op", "arg", "ret", "post")}, "origin": {x: origin[k][x] for x in ("mode", "embedding")}})
    ctx.extra["steps_observed"] = nsteps
    ctx.extra["distinct_steps_judged"] = len(steps)
    ctx.extra["steps_not_judged"] = unjudged
    return steps


def run(ctx: Ctx) -> int:
    if ctx.replay:
        rec = json.load(open(ctx.replay))
        c = rec["case"]
        decide(ctx, [{"doc": c["doc"], "steps": c["steps"], "mode": c["mode"], "emb": c["embedding"]}])
        return ctx.finish("model_checking", "replay of one recorded action sequence")
    tier = ctx.tier
    # TLC's -coverage statistics are prohibitively slow on this specification (minutes for 2 000 states), so the runs
    # go without them; that every call of the API is actually taken is checked below on the emitted sequences
    tlc.model_check(ctx, "NetApi", "NetApi_mc_quick", coverage=False)
    if tier == "thorough":
        tlc.model_check(ctx, "NetApi", "NetApi_mc_thorough", coverage=False)
    # design level: the memo discipline of the code as it stands is NOT coherent -- TLC must find the counterexample
    asis = tlc.run_tlc(ctx, "NetApi", "NetApi_asis", expect_ok=False, tag="asis")
    ctx.extra["asis_discipline_incoherent"] = "Invariant InvCacheCoherent is violated" in asis["stdout"]
    gen = sorted((fix_json(r) for r in tlc.generate(ctx, "NetApi", f"NetApi_gen_{tier}")), key=canon)
    taken = {st["op"] for g in gen for st in g["steps"]}
    missing = ALL_OPS - taken
    if missing:
        raise MachineryError(f"vacuous model: calls never taken in any emitted sequence: {sorted(missing)}")
    rng = random.Random(ctx.seed * 1000003 + 77)
    budget = 9000 if tier == "quick" else 80000
    if len(gen) > budget:
        gen = rng.sample(gen, budget)
    embs = ["int", "dec", "third", "off", "half", "tiny", "big", "flt"]
    cases = []
    for i, g in enumerate(gen):
        for mode in ("all", "none"):
            cases.append({"doc": g["doc"], "steps": g["steps"], "mode": mode, "emb": embs[i % len(embs)]})
    nrand = 300 if tier == "quick" else 3000
    for i in range(nrand):
        d = api_doc(rng)
        st = random_steps(rng, d, rng.randint(5, 9))
        for mode in ("all", "none"):
            cases.append({"doc": d, "steps": st, "mode": mode, "emb": embs[i % len(embs)]})
    decide(ctx, cases)
    ctx.extra["sequences_from_tlc"] = len(gen)
    ctx.extra["random_sequences"] = nrand
    ctx.extra["embeddings"] = ALL
    ctx.assumptions += [
        "each step is judged relative to the state observed on the object just before it (so one defect does not cascade)",
        "calls are generated inside their documented preconditions (create_square(s): every module concerned has a centre and a "
        "positive area; recenter_rectangles: hard, not fixed, centre, rectangles; results on the lattice); steps outside are not judged",
        "the rectangles view is compared as a multiset (its order is model conformance)",
        "write_yaml + Netlist() is judged on normal states (the image of a document); states without a document are counted, not judged",
        "float dimension: each sequence under one of 8 embeddings in rotation",
    ]
    return ctx.finish(
        "model_checking",
        "TLC enumerates all action sequences up to the bound on 3 netlists and checks the contract / coherence invariants; every "
        "sequence is replayed twice (views after every call / views only at the end); evaluations = observed steps; distinct = "
        "distinct (pre, call, post, views) steps judged by TLC; non-trivial = a mutating call or a step whose views were read",
        exhaustive=False)
