"""C06 -- Single-trunk orthogon (STOG) recognition is sound and complete.

TLC (Stog) proves the property clauses for the specified algorithm on every list of rectangles of a bounded
lattice (every order, repetitions, stale roles through AddRect / Permute / Recognise histories) and emits
every multiset of lattice rectangles once.  The harness runs each multiset on the real code in EVERY order:

  * `f` : create_stog(list) on fresh Rectangle objects (direct call),
  * `f` after history: create_stog(list[:-1]), append the last object, create_stog(list) -- the second call
          sees the roles the first one left (the spec's AddRect-after-Recognise behaviour),
  * `n` : the list written as a module of a YAML netlist and loaded by Netlist (which sets the Rectangle
          tolerances itself and runs Module.create_stog); report = Module.has_stog,
  * `m` : Module.create_stog() called again on the loaded module,

under the float embeddings of harness/lattice.py, with the Rectangle tolerances a fresh process loading that
design would use.  Every observed call (list in, roles before, report, list out with roles and object
identities) is pulled back to the lattice and judged by TLC (StogTrace: Clauses = the sentences of the
statement; equality with the model's own outcome = model conformance only).  A seeded random driver builds
larger orthogons (several branches per side, flush corners, gap / overhang / overlap by one unit,
repeated rectangles) and sends them down the same path.
"""
from __future__ import annotations

import itertools
import json
import random

from ..core import Ctx, MachineryError, digest
from ..forkpool import prepare_imports, run_cases
from fractions import Fraction as F

from ..lattice import ALL as _ALL8, EMBEDDINGS as _EMB, Emb, OffLattice
from .. import tlc

# the eight embeddings of harness/lattice.py plus a local one in VERY small units (a layout scaled by 1e-12): the
# tolerances of find_location must come from the design (1e-12 x smallest side), not from an absolute constant --
# at this scale any absolute slack (almost_eq's default 1e-11) is wider than the whole lattice
# ... and a local one FAR from the origin: lattice step 2^-11 at offset 2^20 (all coordinates exact in binary): a gap
# of one lattice unit (4.9e-4) is far above the design tolerance but below 1e-9 x coordinate -- no RELATIVE slack on the
# coordinates may make such a gap an abutment
EMBEDDINGS = dict(_EMB, pico=Emb("pico", F(1, 10 ** 12)), far=Emb("far", F(1, 2 ** 11), 2 ** 20))
ALL = list(_ALL8) + ["pico", "far", "mega"]      # mega (lattice.py): step 1234567.8, large inexact coordinates

ROLE = {"TRUNK": "T", "NORTH": "N", "SOUTH": "S", "EAST": "E", "WEST": "W", "NO_POLYGON": "X"}
EVENTS_PER_ROUND = 60000   # observed calls per round of (run real code -> TLC verdicts); bounds memory and batch size


# ----------------------------------------------------------------------------------------- real code
_RECT_CACHE: dict = {}


def _emb_rect(emb, t):
    """emb.rect (exact Fractions, rounded once) memoised per embedding and lattice rectangle"""
    k = (emb.name, tuple(t))
    v = _RECT_CACHE.get(k)
    if v is None:
        v = _RECT_CACHE[k] = tuple(emb.rect(t))
    return v


def _mk(emb, t):
    from frame.geometry.geometry import Rectangle, Point, Shape
    cx, cy, w, h = _emb_rect(emb, t)
    return Rectangle(center=Point(cx, cy), shape=Shape(w, h))


def _set_eps(emb, rects):
    """Tolerances as Netlist._create_rectangles defines them in a fresh process: 1e-12 x the smallest
    rectangle side (the square root of the module's area is never smaller than that)."""
    from frame.geometry.geometry import Rectangle
    Rectangle.undefine_epsilon()
    m = min(min(float(v[2]), float(v[3])) for v in (_emb_rect(emb, r) for r in rects))
    Rectangle.set_epsilon(m * 1e-12)


def _roles(objs):
    return [ROLE[o.location.name] for o in objs]


def _call(emb, lst_in, objs, fn):
    """One observed call: fn(objs) mutates the list `objs` in place and returns the report."""
    before = list(objs)
    pre = _roles(before)
    ev = {"in": [list(t) for t in lst_in], "pre": pre}
    try:
        ok = fn(objs)
        ids = {id(o): i + 1 for i, o in enumerate(before)}
        ev["ok"] = int(bool(ok))
        ev["out"] = [emb.back_rectangle(o) + [ROLE[o.location.name], ids.get(id(o), -1)] for o in objs]
    except OffLattice as e:
        ev["off"] = str(e)
    except Exception as e:  # every non-empty list is inside the quantifier: raising is a failure
        ev["exc"] = f"{type(e).__name__}: {e}"
    return ev


def _direct(emb, lst, history):
    """create_stog on fresh objects; with `history`, after a call on the list without its last element."""
    from frame.geometry.geometry import create_stog
    _set_eps(emb, lst)
    objs = [_mk(emb, t) for t in lst]
    if history:
        tup = {id(o): t for o, t in zip(objs, lst)}
        head = objs[:-1]
        create_stog(head)          # set-up only: the order and the roles it leaves are OBSERVED before the next call
        objs = head + [objs[-1]]
        lst = [tup[id(o)] for o in objs]
    ev = _call(emb, lst, objs, create_stog)
    ev["api"] = "f"
    return ev


def _netlist(emb, lst):
    """The list as the rectangles of a soft module of a netlist loaded in a process with undefined tolerances."""
    from frame.geometry.geometry import Rectangle
    from frame.netlist.netlist import Netlist
    rows = [_emb_rect(emb, t) for t in lst]
    area = sum(float(r[2]) * float(r[3]) for r in rows)
    # YAML text (decimal literals, as a design file has them), parsed by FRAME's own reader
    doc = "Modules:\n  M:\n    area: %r\n    rectangles: [%s]\nNets: []\n" % (
        area, ", ".join("[" + ", ".join(repr(v) for v in r) + "]" for r in rows))
    Rectangle.undefine_epsilon()
    ev = {"in": [list(t) for t in lst], "pre": ["X"] * len(lst), "api": "n"}
    try:
        m = Netlist(doc).get_module("M")
        ev["ok"] = int(bool(m.has_stog))
        ev["out"] = [emb.back_rectangle(o) + [ROLE[o.location.name], 0] for o in m.rectangles]
    except OffLattice as e:
        ev["off"] = str(e)
        return [ev]
    except Exception as e:
        ev["exc"] = f"{type(e).__name__}: {e}"
        return [ev]
    # second call through Module.create_stog on the loaded objects (stale roles, identities visible)
    lst2 = [o[:4] for o in ev["out"]]
    ev2 = _call(emb, lst2, m.rectangles, lambda _objs: m.create_stog())
    ev2["api"] = "m"
    return [ev, ev2]


def _replay_event(emb, e):
    """Re-run one recorded event (used by --replay): pre-roles are restored with the public setter."""
    from frame.geometry.geometry import Rectangle, create_stog
    if e["api"] == "n":
        return _netlist(emb, e["in"])[:1]
    if e["api"] == "m":
        return _netlist(emb, e["in"])          # the loader may reorder: both events are judged again
    _set_eps(emb, e["in"])
    objs = [_mk(emb, t) for t in e["in"]]
    back = {v: k for k, v in ROLE.items()}
    for o, r in zip(objs, e["pre"]):
        o.location = Rectangle.StogLocation[back[r]]
    ev = _call(emb, e["in"], objs, create_stog)
    ev["api"] = "f"
    return [ev]


def _live(emb, case):
    """One history on a LIVE netlist (Stog.tla, section 4): load (recognition runs, everything derived from the
    geometry has been computed once), then in-place changes through the public objects, then recognition again.
    Module m is listed at x offset 8 (m - 1); observations are pulled back relative to that offset."""
    from frame.geometry.geometry import Point, Rectangle
    from frame.netlist.netlist import Netlist
    ops = case["ops"]
    mods = ops[0]["mods"]
    off = [8 * m for m in range(len(mods))]
    pb_shift = [float(emb.length(o)) for o in off]

    def text(name, rs, dx):
        rows = [_emb_rect(emb, [t[0] + dx, t[1], t[2] + dx, t[3]]) for t in rs]
        area = sum(float(r[2]) * float(r[3]) for r in rows)
        return "  %s: {area: %r, rectangles: [%s]}" % (name, area, ", ".join("[" + ", ".join(repr(v) for v in r) + "]" for r in rows))

    doc = "Modules: {\n" + ",\n".join(text(f"M{m}", rs, off[m]) for m, rs in enumerate(mods)) + "\n}\nNets: []\n"
    Rectangle.undefine_epsilon()
    out = []
    try:
        n = Netlist(doc)
    except Exception as e:
        return {"exc": f"{type(e).__name__}: {e}"[:300]}

    def observe():
        obs = []
        for m, md in enumerate(n.modules):
            rows = []
            for r in md.rectangles:
                q = emb.back_rectangle(r)
                rows.append([q[0] - off[m], q[1], q[2] - off[m], q[3], ROLE[r.location.name], 0])
            obs.append({"ok": int(bool(md.has_stog)), "out": rows})
        return obs

    try:
        for k, op in enumerate(ops):
            ev = dict(op)
            if op["op"] == "load":
                ev["obs"] = observe()
            elif op["op"] == "move":
                r = n.modules[op["m"] - 1].rectangles[op["k"] - 1]
                dx, dy = float(emb.length(op["dx"])), float(emb.length(op["dy"]))
                if (k + case.get("salt", 0)) % 2:
                    r.center.x += dx               # as Module.recenter_rectangles moves rectangles
                    r.center.y += dy
                else:
                    r.center = Point(r.center.x + dx, r.center.y + dy)
            elif op["op"] == "mirror":
                md = n.modules[op["m"] - 1]
                lo = min(r.bounding_box.ll.x for r in md.rectangles)
                hi = max(r.bounding_box.ur.x for r in md.rectangles)
                for r in md.rectangles:
                    r.center.x = (lo + hi) - r.center.x     # as the flip of glbfloor does
            elif op["op"] == "assign":
                m = op["m"] - 1
                n.assign_rectangles({f"M{m}": [list(_emb_rect(emb, [t[0] + off[m], t[1], t[2] + off[m], t[3]])) for t in op["rects"]]})
            elif op["op"] == "rec":
                n.modules[op["m"] - 1].create_stog()
                ev["obs"] = observe()
            else:
                n.create_stogs()
                ev["obs"] = observe()
            out.append(ev)
    except OffLattice as e:
        return {"off": str(e)}
    except Exception as e:
        return {"exc": f"{type(e).__name__}: {e}"[:300]}
    return {"net": out}


def _orders(base):
    seen, out = set(), []
    for p in itertools.permutations(range(len(base))):
        lst = tuple(tuple(base[i]) for i in p)
        if lst not in seen:
            seen.add(lst)
            out.append(lst)
    return out


def run_case(case):
    """-> list of (event, [embeddings that observed exactly this event])"""
    found: dict[str, list] = {}

    def add(ev, en):
        k = json.dumps(ev, sort_keys=True)
        owners = found.setdefault(k, [ev, []])[1]
        if en not in owners:
            owners.append(en)

    if case["kind"] == "net":
        for en in case["embs"]:
            add(_live(EMBEDDINGS[en], case), en)
        return list(found.values())

    if case["kind"] == "event":
        for en in case["embs"]:
            for ev in _replay_event(EMBEDDINGS[en], case["event"]):
                add(ev, en)
        return list(found.values())

    base = case["rects"]
    orders = case["orders"] if "orders" in case else _orders(base)
    for k, lst in enumerate(orders):
        if "embs" in case:
            embs = case["embs"]
        elif case["rotate"]:    # two embeddings per order, all eleven over the orders of the case
            j = k + case.get("salt", 0)
            embs = [ALL[j % len(ALL)], ALL[(j + len(ALL) // 2) % len(ALL)]]
        else:
            embs = ALL
        for en in embs:
            emb = EMBEDDINGS[en]
            add(_direct(emb, lst, False), en)
            if len(lst) >= 2 and k % case["history_every"] == 0:
                add(_direct(emb, lst, True), en)
        if case["netlist"] and k == 0:
            j = case.get("salt", 0)
            for en in (case["embs"] if "embs" in case else (ALL[j % len(ALL)], ALL[(j + 3) % len(ALL)])):
                for ev in _netlist(EMBEDDINGS[en], lst):
                    add(ev, en)
    return list(found.values())


# ----------------------------------------------------------------------------------------- cases
def tlc_cases(printed):
    """Every multiset emitted by TLC, in every order, fresh and after history.  Up to three rectangles: every order
    under all eleven embeddings; four rectangles: each order under two embeddings (all eleven over the orders)."""
    cases = []
    for i, c in enumerate(printed):
        big = len(c["rects"]) >= 4
        cases.append({"kind": "multiset", "rects": c["rects"], "rotate": big, "history_every": 1, "orders_rule": "all",
                      "netlist": True, "salt": i, "origin": "tlc"})
    return cases


def random_cases(rng: random.Random, n: int) -> list[dict]:
    """Orthogons larger than TLC enumerates, and their near misses.  A trunk, 0..3 branches on each side
    (flush with a corner, spanning the whole side, or inside), then with probability 2/3 one defect:
    gap / overlap with the trunk by one unit, overhang by one unit, a repeated rectangle (trunk or branch),
    a stray rectangle.  Three random orders of each list."""
    cases = []
    for _ in range(n):
        w, h = rng.randint(1, 12), rng.randint(1, 12)
        x0, y0 = rng.randint(6, 20), rng.randint(6, 20)
        T = [x0, y0, x0 + w, y0 + h]
        rects = [T]
        for side in "NSEW":
            for _b in range(rng.choice([0, 0, 1, 1, 2, 3])):
                span = w if side in "NS" else h
                lo = rng.choice([0, 0, rng.randint(0, span - 1)])
                hi = rng.choice([span, span, rng.randint(lo + 1, span)])
                d = rng.randint(1, 5)
                if side == "N":
                    b = [x0 + lo, y0 + h, x0 + hi, y0 + h + d]
                elif side == "S":
                    b = [x0 + lo, y0 - d, x0 + hi, y0]
                elif side == "E":
                    b = [x0 + w, y0 + lo, x0 + w + d, y0 + hi]
                else:
                    b = [x0 - d, y0 + lo, x0, y0 + hi]
                rects.append(b)
        rects = rects[:7]
        defect = rng.choice(["none", "none", "gap", "overlap", "overhang", "dup_trunk", "dup_branch", "stray"])
        if defect in ("gap", "overlap", "overhang") and len(rects) > 1:
            i = rng.randrange(1, len(rects))
            b = list(rects[i])
            horiz = b[1] == T[3] or b[3] == T[1]          # a north / south branch
            if defect == "overhang":
                ax = 0 if horiz else 1
                if rng.random() < 0.5:
                    b[ax] = T[ax] - 1
                else:
                    b[ax + 2] = T[ax + 2] + 1
            else:
                s = 1 if defect == "gap" else -1
                if b[1] == T[3]:
                    b[1] += s; b[3] += s
                elif b[3] == T[1]:
                    b[1] -= s; b[3] -= s
                elif b[0] == T[2]:
                    b[0] += s; b[2] += s
                else:
                    b[0] -= s; b[2] -= s
            rects[i] = b
        elif defect == "dup_trunk":
            rects.append(list(T))
        elif defect == "dup_branch" and len(rects) > 1:
            rects.append(list(rng.choice(rects[1:])))
        elif defect == "stray":
            rects.append([x0 + w + 6, y0 + h + 6, x0 + w + 6 + rng.randint(1, 4), y0 + h + 6 + rng.randint(1, 4)])
        orders = []
        for _o in range(3):
            p = rects[:]
            rng.shuffle(p)
            orders.append(tuple(tuple(r) for r in p))
        cases.append({"kind": "multiset", "rects": rects, "orders": orders, "rotate": False, "history_every": 1,
                      "orders_rule": "given", "netlist": True, "salt": len(cases), "origin": "random:" + defect})
    return cases


def comb_cases(rng: random.Random, n: int) -> list[dict]:
    """Bars and combs under the decimal embedding (step 0.1): a trunk 128.0 .. 131072.0 long on an axis whose lines are
    exactly representable, branches along that long side, and the other axis at 16.0 plus 0.1 / 0.2 / 0.8 steps
    (inexact: abutting rectangles may overlap by one unit in the last place).  The one-ulp overlap along a side
    thousands of times longer than the smallest side has an area above the distance tolerance and far below the area
    tolerance.  Half of the lists get a defect (gap or overlap of 0.1, overhang of 1.0)."""
    cases = []
    for i in range(n):
        L = rng.choice([1280, 2560, 163840, 1310720]) + 10 * rng.randint(0, 3)
        y0 = 160 + rng.choice([0, 1, 3, 9])
        h = rng.choice([1, 2, 8])
        T = [0, y0, L, y0 + h]
        rects = [T]
        for side in ("N", "S"):
            x = 0
            for _b in range(rng.randint(0, 2)):
                x1 = x + 10 * rng.randint(0, 3)
                x2 = min(L, x1 + rng.choice([L // 2 // 10 * 10, L - x1, 1280]))
                if x2 <= x1:
                    break
                d = rng.choice([1, 2, 8])
                rects.append([x1, y0 + h, x2, y0 + h + d] if side == "N" else [x1, y0 - d, x2, y0])
                x = x2
        defect = rng.choice(["none", "none", "gap", "overlap", "overhang"])
        if defect != "none" and len(rects) > 1:
            k = rng.randrange(1, len(rects))
            b = list(rects[k])
            up = b[1] >= T[3]
            if defect == "overhang":
                b[0] -= 10
            else:
                s = (1 if defect == "gap" else -1) * (1 if up else -1)
                b[1] += s; b[3] += s
            rects[k] = b
        if i % 2:       # the same list turned by 90 degrees (long axis = y)
            rects = [[r[1], r[0], r[3], r[2]] for r in rects]
        orders = []
        for _o in range(2):
            p = rects[:]
            rng.shuffle(p)
            orders.append(tuple(tuple(r) for r in p))
        cases.append({"kind": "multiset", "rects": rects, "orders": orders, "rotate": False, "history_every": 1,
                      "orders_rule": "given", "netlist": True, "salt": i, "origin": "comb:" + defect, "embs": ["dec"]})
    return cases


# ----------------------------------------------------------------------------------------- judging
def decide(ctx: Ctx, cases: list[dict]):
    """Run the cases on the real code, then let TLC judge every distinct observed call."""
    prepare_imports()
    import frame.netlist.netlist  # noqa: F401  (imported in the parent, used only in the forked children)
    stats = ctx.extra.setdefault("observed", {"calls": 0, "distinct_events": 0, "reported_stog": 0,
                                              "reported_stog_3plus": 0, "with_stale_roles": 0, "with_repetition": 0})
    rounds, cur, w = [], [], 0
    for c in cases:
        cur.append(c)
        w += _weight(c)
        if w >= EVENTS_PER_ROUND:
            rounds.append(cur)
            cur, w = [], 0
    if cur:
        rounds.append(cur)
    for part in rounds:
        results = run_cases(run_case, part, nproc=16)
        traces = {}
        for c, (st, val) in zip(part, results):
            if st != "ok":
                ctx.violation("no_result", {"rects": c.get("rects"), "status": st}, {"status": st}, {"api": "f"})
                continue
            evs, owners = [], []
            for ev, embs in val:
                ctx.count(n=len(embs))
                stats["calls"] += len(embs)
                if "net" in ev:
                    t = {"kind": "net", "events": ev["net"]}
                    t["id"] = "n" + digest(t)
                    if t["id"] not in traces:
                        traces[t["id"]] = (t, [embs] * len(ev["net"]), "net")
                        stats["net_histories"] = stats.get("net_histories", 0) + 1
                    continue
                if "exc" in ev or "off" in ev:
                    if c["kind"] == "net":
                        ctx.violation("raises" if "exc" in ev else "off_lattice", {"net": c["ops"], "embeddings": embs}, ev,
                                      {"api": "net", "embedding": embs[0], "n": 0, "repeated": False})
                        continue
                    clause = "raises" if "exc" in ev else "off_lattice"
                    ctx.violation(clause, {"event": {k: ev[k] for k in ("in", "pre", "api")}, "embeddings": embs},
                                  {k: ev[k] for k in ("exc", "off") if k in ev}, _features(ev, embs))
                    continue
                evs.append(ev)
                owners.append(embs)
            if not evs:
                continue
            t = {"kind": "calls", "events": evs}
            key = digest(t)
            if key not in traces:
                t["id"] = key
                traces[key] = (t, owners, c.get("origin", ""))
        verdicts = tlc.validate_traces(ctx, "StogTrace", "StogTrace", [t for (t, _o, _g) in traces.values()], chunk=10 ** 9)
        for key, v in verdicts.items():
            t, owners, origin = traces[key]
            if t["kind"] == "net":
                ctx.count(key, nontrivial=True, n=0)
                for (l, clause) in v["fails"]:
                    ctx.violation(clause, {"net": t["events"], "step": l, "embeddings": owners[0]},
                                  {"obs": t["events"][l - 1].get("obs")},
                                  {"api": "net", "embedding": owners[0][0], "n": len(t["events"][0]["mods"]), "repeated": False})
                continue
            for ev in t["events"]:
                stats["distinct_events"] += 1
                yes = ev["ok"] == 1
                stats["reported_stog"] += yes
                stats["reported_stog_3plus"] += yes and len(ev["in"]) >= 3
                stats["with_stale_roles"] += any(r != "X" for r in ev["pre"])
                stats["with_repetition"] += len({tuple(r) for r in ev["in"]}) < len(ev["in"])
                ctx.count(digest(ev), nontrivial=len(ev["in"]) >= 2, n=0)
            for (l, clause) in v["fails"]:
                ev = t["events"][l - 1]
                ctx.violation(clause, {"event": {k: ev[k] for k in ("in", "pre", "api")}, "embeddings": owners[l - 1],
                                       "origin": origin},
                              {"ok": ev["ok"], "out": ev["out"]}, _features(ev, owners[l - 1]))
            for (l, what) in v["drift"]:
                if not any(f[0] == l for f in v["fails"]):
                    ctx.model_drift(f"{what}: the observed outcome satisfies every clause but differs from the model's")
        for (t, owners, origin) in list(traces.values())[:2]:
            ctx.sample({"origin": origin, "event": t["events"][-1], "embeddings": owners[-1]})


def _weight(c):
    """estimated number of distinct observed calls of a case"""
    if c["kind"] == "net":
        return 3
    if c["kind"] != "multiset":
        return 1
    n = len(c["rects"])
    if c["orders_rule"] == "given":
        k = len(c["orders"])
    else:
        k = (1, 1, 2, 6, 24)[n] if n <= 4 else 120
    return k + (k if c["history_every"] == 1 else 1) + 2


def _features(ev, embs):
    """Only used to match known findings (never to judge)."""
    rs = [tuple(r) for r in ev["in"]]
    return {"api": ev["api"], "embedding": embs[0], "n": len(rs), "repeated": len(set(rs)) < len(rs)}


def run(ctx: Ctx) -> int:
    if ctx.replay:
        rec = json.load(open(ctx.replay))
        c = rec["case"]
        decide(ctx, [{"kind": "event", "event": c["event"], "embs": c["embeddings"], "origin": "replay"}])
        return ctx.finish("model_checking", "replay of one recorded call")
    tier = ctx.tier
    # the property holds for the specified algorithm on the whole bounded universe (+ vacuity on the small one)
    tlc.model_check(ctx, "Stog", "Stog_mc_vacuity", vacuity_ignore=("Emit", "EmitNet"))
    printed = []
    for size in (("quick",) if tier == "quick" else ("mid", "tall")):
        tlc.model_check(ctx, "Stog", f"Stog_mc_{size}", coverage=False)
        printed += tlc.generate(ctx, "Stog", f"Stog_gen_{size}")
    printed += tlc.generate(ctx, "Stog", "Stog_gen_wide")
    nets = [c for c in printed if c.get("kind") == "net"]
    printed = [c for c in printed if c.get("kind") != "net"]
    seen, uniq = set(), []
    for c in printed:
        k = json.dumps(c["rects"])
        if k not in seen:
            seen.add(k)
            uniq.append(c)
    cases = tlc_cases(uniq)
    rng = random.Random(ctx.seed * 1000003 + 6)
    cases += random_cases(rng, 400 if tier == "quick" else 4000)
    seen_net = set()
    for k, c in enumerate(nets):            # histories on live netlists, one embedding each (rotating over all)
        key = json.dumps(c["ops"])
        if key not in seen_net:
            seen_net.add(key)
            cases.append({"kind": "net", "ops": c["ops"], "embs": [ALL[k % len(ALL)]], "salt": k, "origin": "tlc-net"})
    cases += comb_cases(rng, 200 if tier == "quick" else 2000)
    decide(ctx, cases)
    st = ctx.extra["observed"]
    if min(st["reported_stog_3plus"], st["with_stale_roles"], st["with_repetition"]) == 0:
        raise MachineryError(f"vacuous run: {st}")
    ctx.extra["embeddings"] = ALL
    ctx.extra["cases"] = {"tlc_multisets": len(uniq), "random": len(cases) - len(uniq)}
    ctx.assumptions += [
        "float dimension sampled by 11 embeddings of the integer lattice (steps 1, 1.0, 1/2, 1/10, 1/3, 1e3, 1e-3, 0.1+37.3, 1e-12, 2^-11 at offset 2^20, 1234567.8), not enumerated",
        "Rectangle tolerances as a fresh process loading the design defines them (1e-12 x smallest side; the netlist route lets Netlist define them)",
        "every TLC-enumerated multiset is run in every order, fresh and after history; lists of up to 3 rectangles under all 11 "
        "embeddings per order, lists of 4 under 2 of the 11 per order (all 11 over the orders of one multiset)",
        "universes: quick 3x2 lattice <= 3 rectangles and 4x4 <= 2; thorough 3x3 <= 3, 3x2 <= 4 and 4x4 <= 2; random orthogons and near misses up to 8 rectangles on a 40x40 lattice",
        "the netlist route (Netlist -> Module.create_stog / has_stog) is taken for one order of every multiset under 2 embeddings",
        "'every other rectangle' is read position-wise: a repeated rectangle is another rectangle",
        "live netlists: every TLC-emitted history (load; moves / mirrors / assign_rectangles in place; Module.create_stog or Netlist.create_stogs) "
        "on 2 modules runs on real Netlist / Module objects under one embedding; roles are judged against the CURRENT geometry",
    ]
    return ctx.finish(
        "model_checking",
        "TLC enumerates every list (all orders, repetitions) of up to MAXR rectangles of the lattice and proves the clauses for the "
        "specified algorithm; every multiset is run on the real code in every order (fresh, after a call on the list without its "
        "last element, through Netlist/Module); evaluations = observed calls x embeddings; distinct = distinct observed calls "
        "(list in, roles before, report, list out) judged by TLC; non-trivial = lists of at least two rectangles",
        exhaustive=False)
