"""NETGEN -- tools/netgen/netgen.py, the netlist generator (extra engine).

TLC (Netgen) defines, for every command line of a bounded universe, the design the tool must produce (module names,
unit areas, the net set as a graph, grid centres) from the help text, the README and the docstrings; it model-checks
structural lemmas on every defined design (proper, connected, node / edge counts, degrees, weights, centres inside the
die) and emits the command lines with their class (nonsense / degenerate / defined).  The driver runs
tools.netgen.netgen.main twice with each command line, parses the written file, loads it with frame.netlist.Netlist,
and TLC (NetgenTrace) compares modules / areas / nets / weights / centres with the definition, checks that the loaded
netlist is the written one, that the same command line gives the same file, that nonsense is rejected and that a
degenerate size is rejected or at least answered with a proper design.  A seeded random driver adds larger sizes.
"""
from __future__ import annotations

import json
import os
import random
from fractions import Fraction as F

from ..core import Ctx, MachineryError, canon, digest
from ..forkpool import prepare_imports, run_cases
from .. import tlc
from .c04 import fix_json

NONOISE = {"form": "none", "v": [0, 1]}


def argv_of(case: dict, outfile: str, workdir: str) -> list[str]:
    a = ["--type", case["typ"], "--size"] + [str(k) for k in case["size"]] + ["-o", outfile]
    if case["centers"]:
        a.append("--add-centers")
    if case["noise"]["form"] == "flag":
        a.append("--add-noise")
    elif case["noise"]["form"] == "value":
        a += ["--add-noise", repr(float(F(*case["noise"]["v"])))]
    if case["seed"] != -1:
        a += ["--seed", str(case["seed"])]
    if case["die"]:
        w, h = F(case["die"][0], case["die"][1]), F(case["die"][2], case["die"][3])
        num = lambda q: str(int(q)) if q.denominator == 1 else repr(float(q))   # noqa: E731
        if case["dieform"] == "file":
            path = os.path.join(workdir, f"die-{os.getpid()}.yaml")
            with open(path, "w") as fh:
                fh.write(f"width: {num(w)}\nheight: {num(h)}\n")
            a += ["--die", path]
        else:
            a += ["-d", f"{num(w)}x{num(h)}"]
    return a


def _rat(v, maxden=1000) -> list[int]:
    q = F(v).limit_denominator(maxden)
    if abs(F(v) - q) > 1e-9:
        return [int(round(float(v) * 1000003)), 1000003]     # not a small rational: an odd value TLC will not take for 1
    return [q.numerator, q.denominator]


def observe_doc(tree) -> dict:
    """the written YAML document as integers (areas and weights as fractions, centres in 1e-6 units)"""
    mods, nets = [], []
    for name, info in (tree.get("Modules") or {}).items():
        c = info.get("center")
        mods.append({"name": str(name), "area": _rat(info.get("area", 0)) if isinstance(info.get("area", 0), (int, float)) else [0, 1],
                     "center": [] if c is None else [int(round(c[0] * 1e6)), int(round(c[1] * 1e6))]})
    for e in (tree.get("Nets") or []):
        if e and isinstance(e[-1], (int, float)) and not isinstance(e[-1], bool):
            nets.append({"pins": [str(p) for p in e[:-1]], "w": _rat(e[-1])})
        else:
            nets.append({"pins": [str(p) for p in e], "w": [1, 1]})
    return {"mods": mods, "nets": nets}


def run_once(case: dict, outfile: str, workdir: str) -> int:
    """netgen.main(argv) -> 0 if it returned, 1 if it raised or exited (argparse)"""
    import contextlib
    from tools.netgen import netgen
    if os.path.exists(outfile):
        os.remove(outfile)
    try:
        with open(os.devnull, "w") as null, contextlib.redirect_stderr(null), contextlib.redirect_stdout(null):
            netgen.main("netgen", argv_of(case, outfile, workdir))
        return 0
    except (Exception, SystemExit):
        return 1


def run_case(case: dict) -> dict:
    import tempfile
    from frame.netlist.netlist import Netlist
    from frame.geometry.geometry import Rectangle
    from frame.utils.utils import read_yaml
    wd = tempfile.gettempdir()
    f1 = os.path.join(wd, f"netgen-{os.getpid()}-1.yaml")
    f2 = os.path.join(wd, f"netgen-{os.getpid()}-2.yaml")
    Rectangle.undefine_epsilon()
    rc1 = run_once(case, f1, wd)
    out = {"rc": rc1, "parsed": 0, "mods": [], "nets": []}
    nl = {"acc": 0, "mods": [], "nets": []}
    d1 = d2 = ""
    text = ""
    if rc1 == 0 and os.path.exists(f1):
        text = open(f1).read()
        d1 = digest(text)
        try:
            with open(f1) as fh:
                from ruamel.yaml import YAML
                tree = YAML(typ="safe").load(fh)
            out.update(observe_doc(tree if isinstance(tree, dict) else {}))
            out["parsed"] = 1
        except Exception:
            pass
        Rectangle.undefine_epsilon()
        try:
            n = Netlist(f1)
            nl = {"acc": 1,
                  "mods": [{"name": m.name, "area": _rat(m.area())} for m in n.modules],
                  "nets": [{"pins": [b.name for b in e.modules], "w": _rat(e.weight)} for e in n.edges]}
        except Exception as e:
            nl["exc"] = f"{type(e).__name__}: {str(e)[:100]}"
    elif rc1 == 0:
        out["rc"] = 1        # returned without writing anything: nothing was produced
    Rectangle.undefine_epsilon()
    rc2 = run_once(case, f2, wd)
    if rc2 == 0 and os.path.exists(f2):
        d2 = digest(open(f2).read())
    for f in (f1, f2, os.path.join(wd, f"die-{os.getpid()}.yaml")):
        if os.path.exists(f):
            os.remove(f)
    return {"out": out, "nl": nl, "rc2": rc2, "d1": d1, "d2": d2, "text": text[:500]}


def random_cases(rng: random.Random, n: int) -> list[dict]:
    cases = []
    for _ in range(n):
        typ = rng.choice(["grid", "grid", "chain", "ring", "star", "ring-star", "one-net", "htree"])
        c = {"typ": typ, "size": [], "centers": 0, "die": [], "dieform": "none", "noise": dict(NONOISE), "seed": -1}
        if typ == "grid":
            c["size"] = [rng.randint(1, 12), rng.randint(1, 12)]
            if rng.random() < 0.6:
                c["centers"] = 1
                c["die"] = [rng.randint(1, 40), rng.choice([1, 1, 2, 4]), rng.randint(1, 40), rng.choice([1, 1, 2])]
                c["dieform"] = rng.choice(["WxH", "file"])
                z = rng.random()
                if z < 0.3:
                    c["noise"] = {"form": "flag", "v": [1, 10]}
                elif z < 0.6:
                    c["noise"] = {"form": "value", "v": [rng.randint(1, 9), rng.choice([4, 10, 20])]}
                if rng.random() < 0.7:
                    c["seed"] = rng.randint(0, 10 ** 6)
        elif typ == "htree":
            c["size"] = [rng.randint(1, 4)]
        else:
            c["size"] = [rng.randint(1, 60)]
        cases.append(c)
    return cases


def failure_features(c: dict, clause: str, out: dict) -> dict:
    """labels for known-finding matching (never a verdict)"""
    small = min(c["size"]) if c["size"] else 0
    f = {"typ": c["typ"], "clause": clause, "smallest_size": small if small <= 3 else "4+", "centers": c["centers"]}
    if clause == "rejects":
        arity = 2 if c["typ"] == "grid" else 1
        f["why"] = ("wrong_number_of_sizes" if len(c["size"]) != arity else
                    "non_positive_size" if small <= 0 else "add_centers_misuse")
        f["topology_family"] = "htree" if c["typ"] == "htree" else "others"
    if clause == "proper_or_rejected":
        names = {m["name"] for m in out["mods"]}
        pinsets = [frozenset(e["pins"]) for e in out["nets"]]
        f["improper"] = ("undeclared_pin" if any(not set(e["pins"]) <= names for e in out["nets"]) else
                         "one_pin_net" if any(len(e["pins"]) < 2 for e in out["nets"]) else
                         "self_loop" if any(len(set(e["pins"])) < len(e["pins"]) for e in out["nets"]) else
                         "repeated_net" if len(set(pinsets)) < len(pinsets) else "other")
    return f


def decide(ctx: Ctx, cases: list[dict]):
    prepare_imports()
    import tools.netgen.netgen  # noqa: F401
    import frame.netlist.netlist  # noqa: F401
    results = run_cases(run_case, cases, nproc=16)
    traces, texts = {}, {}
    for c, (st, val) in zip(cases, results):
        if st != "ok":
            ctx.violation("no_result", {"case": c}, {"status": st}, {"typ": c["typ"], "clause": "no_result"})
            continue
        ctx.count(n=2)
        t = {"case": c, "out": val["out"], "nl": {k: v for k, v in val["nl"].items() if k != "exc"}, "rc2": val["rc2"], "d1": val["d1"], "d2": val["d2"]}
        key = digest(t)
        t["id"] = key
        traces[key] = t
        texts[key] = (val["text"], val["nl"].get("exc", ""))
    verdicts = tlc.validate_traces(ctx, "NetgenTrace", "NetgenTrace", [traces[k] for k in sorted(traces)], chunk=4000)
    for key in sorted(verdicts):
        v, t = verdicts[key], traces[key]
        c = t["case"]
        ctx.count(key, nontrivial=True, n=0)
        for clause in sorted(v["fails"]):
            feats = failure_features(c, clause, t["out"])
            ctx.violation(clause, {"case": c}, {"size": c["size"], "modules": [m["name"] for m in t["out"]["mods"]][:12],
                                                "nets": t["out"]["nets"][:8], "reader": texts[key][1], "file": texts[key][0][:300]}, feats)
        for what in sorted(v["drift"]):
            ctx.model_drift(f"{c['typ']}: {what}")
    for k in sorted(traces)[:3]:
        ctx.sample({"case": traces[k]["case"], "modules": len(traces[k]["out"]["mods"]), "nets": len(traces[k]["out"]["nets"])})


def run(ctx: Ctx) -> int:
    if ctx.replay:
        rec = json.load(open(ctx.replay))
        decide(ctx, [rec["case"]["case"]])
        return ctx.finish("model_checking", "replay of one recorded command line")
    tier = ctx.tier
    tlc.model_check(ctx, "Netgen", f"Netgen_mc_{tier}", vacuity_ignore=("Emit",))
    gen = sorted((fix_json(r) for r in tlc.generate(ctx, "Netgen", f"Netgen_gen_{tier}")), key=canon)
    classes = {k: sum(1 for g in gen if g["class"] == k) for k in ("nonsense", "degenerate", "defined")}
    types = {g["case"]["typ"] for g in gen if g["class"] == "defined"}
    if min(classes.values()) == 0 or len(types) != 7:
        raise MachineryError(f"vacuous universe: classes {classes}, defined topologies {sorted(types)}")
    rng = random.Random(ctx.seed * 1000003 + 19)
    nrand = 150 if tier == "quick" else 1500
    cases = [g["case"] for g in gen] + random_cases(rng, nrand)
    decide(ctx, cases)
    ctx.extra["command_lines_from_tlc"] = len(gen)
    ctx.extra["classes"] = classes
    ctx.extra["random_command_lines"] = nrand
    ctx.assumptions += [
        "the definition is derived from the help text, README and docstrings; the H-tree (shape and weights 2^level) is taken from the code",
        "a ring needs 3, a ring-star 4 modules and a net 2 pins to be a proper graph: smaller positive sizes must be rejected or give a proper design",
        "with noise the centres are only required within 8 standard deviations of their grid position; runs are compared for identity only when "
        "no noise is used or a seed is given",
        "module order in the file is model conformance (the names and their number are the property)",
    ]
    return ctx.finish(
        "model_checking",
        "TLC enumerates every command line of the bounded universe (7 topologies x sizes incl. non-positive and wrong arity, grid centres "
        "x die form x noise x seed, stray options), checks the structural lemmas on every defined design; each command line is 2 evaluations "
        "(two runs); distinct = distinct observed runs judged by TLC",
        exhaustive=True)
