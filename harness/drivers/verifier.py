"""VERIFIER -- the stand-alone floorplan verifier (tools/verifier/verifier.py) accepts exactly the acceptable results.

Grows the C09 specification: Verifier.tla EXTENDS Legal.tla.  TLC builds input netlists (legal floorplans of single-trunk
orthogons), and for each the outputs around it: the configuration itself, every single geometric edit of it (Legal's
Edits) and the structural edits (a module dropped, a foreign module added, a kind changed); it checks at design level
that the transcribed checks of `main` pass <=> the contract clauses hold (sameModules, sameKinds, hardCongruent,
fixedInPlace, area, inDie, interDisjoint, intraDisjoint -- Legal's Clauses), and that every legal floorplan of C09 is
acceptable.  The harness writes the three YAML files for every (input, output) pair with at most one false contract
clause, runs the real `main`, and VerifierTrace judges `accepted <=> contract`.  A seeded random driver (the C09
generator) adds larger floorplans on the same path.
"""
from __future__ import annotations

import contextlib
import io
import json
import os
import random
import shutil
import time

from ..core import Ctx, MachineryError, digest
from ..forkpool import prepare_imports, run_cases
from ..lattice import EMBEDDINGS
from .. import tlc
from .c09 import fmt, listing, random_case

SPEC = "Verifier"
TRACE = "VerifierTrace"
FLOATS = ["flt", "half", "dec", "third", "big", "tiny"]
VCLAUSES = ["sameModules", "sameKinds", "hardCongruent", "fixedInPlace", "area", "inDie", "interDisjoint", "intraDisjoint"]
UNIVERSES = {"quick": ["quick", "quick_multi"], "thorough": ["thorough", "thorough_multi", "thorough_r3"]}
# what the verifier prints -> the check that complained
MESSAGES = [("on the output, but not on the input", "unknown"), ("on the input, but not on the output", "missing"),
            ("found twice", "twice"), ("has different area", "area"), ("less area than required", "area"), ("on the input, but", "kind"), ("does not keep the same shape", "shape"),
            ("its position changes", "fixedpos"), ("falls outside of the die", "die"), ("self-intersecting", "self"),
            ("intersect", "overlap")]


# ------------------------------------------------------------------------------------------------ documents
def doc_of(mods: list[dict], emb, order: str) -> str:
    """FPEF text of a list of {name, kind, area (lattice units^2, soft only), rects}."""
    lines = ["Modules: {"]
    for k, md in enumerate(mods):
        rects = [emb.rect(md["rects"][i]) for i in listing(md, order)]
        rs = ", ".join("[" + ", ".join(fmt(v) for v in r) + "]" for r in rects)
        attr = f"area: {fmt(emb.area(md['area']))}" if md["kind"] == "soft" else f"{md['kind']}: true"
        lines.append(f"  {md['name']}: {{ {attr}, rectangles: [{rs}] }}" + ("," if k + 1 < len(mods) else ""))
    lines.append("}")
    names = [md["name"] for md in mods]
    lines.append("Nets: [[" + ", ".join(names) + "]]" if len(names) >= 2 else "Nets: []")
    return "\n".join(lines) + "\n"


def input_mods(net: list[dict]) -> list[dict]:
    return [{"name": f"M{m + 1}", "kind": md["kind"], "area": md["area"], "rects": md["rects"]} for m, md in enumerate(net)]


def output_mods(net: list[dict], out: list[dict]) -> list[dict]:
    """Output modules as the legaliser writes them: a soft module repeats the area attribute of the input module
    (Verifier.tla, DeclArea); a module that is not in the input is called X<k>."""
    mods = []
    for k, o in enumerate(out):
        if o["id"]:
            src = net[o["id"] - 1]
            decl = src["area"] if src["kind"] == "soft" else sum((r[2] - r[0]) * (r[3] - r[1]) for r in o["rects"])
            name = f"M{o['id']}"
        else:
            decl = sum((r[2] - r[0]) * (r[3] - r[1]) for r in o["rects"])
            name = f"X{k + 1}"
        mods.append({"name": name, "kind": o["kind"], "area": decl, "rects": o["rects"]})
    return mods


# ------------------------------------------------------------------------------------------------ the real code
def _observe(case: dict, en: str, in_order: str, out_order: str) -> list[dict]:
    import tempfile
    from frame.geometry.geometry import Rectangle
    from tools.verifier import verifier

    emb = EMBEDDINGS[en]
    net, w = case["net"], case["w"]
    tmp = tempfile.mkdtemp(prefix="vf")
    try:
        ini, die, outp = (os.path.join(tmp, n) for n in ("ini.yaml", "die.yaml", "out.yaml"))
        with open(ini, "w") as f:
            f.write(doc_of(input_mods(net), emb, in_order))
        with open(die, "w") as f:
            f.write(f"width: {fmt(emb.length(w['dw']))}\nheight: {fmt(emb.length(w['dh']))}\n")
        obs = []
        for ev in case["events"]:
            with open(outp, "w") as f:
                f.write(doc_of(output_mods(net, ev["out"]), emb, out_order))
            Rectangle.undefine_epsilon()  # tolerances are set by the first netlist a process loads
            sink = io.StringIO()
            try:
                with contextlib.redirect_stdout(sink):
                    verifier.main("verifier", [ini, die, outp])
            except BaseException as e:  # noqa: BLE001  (an assertion of the reader, an IndexError, SystemExit, ...)
                obs.append({"acc": 0, "tags": ["crash"], "exc": f"{type(e).__name__}: {e}"[:200]})
                continue
            text = sink.getvalue()
            tags = set()
            for line in text.splitlines():
                for pat, tag in MESSAGES:
                    if pat in line:
                        tags.add(tag)
                        break
            acc = int("No errors were found!" in text)
            if not acc and "Some errors were found" not in text:
                tags.add("noverdict")
            obs.append({"acc": acc, "tags": sorted(tags)})
        return obs
    finally:
        shutil.rmtree(tmp, ignore_errors=True)


def run_case(case: dict) -> dict:
    return {"/".join(v): _observe(case, *v) for v in case["variants"]}


def variants_for(k: int, net: list[dict], tier: str) -> list[list[str]]:
    """[embedding, listing order of the input, listing order of the output].  The last variant lists the rectangles
    of the input and of the output in DIFFERENT orders (what legalfloor does: it writes trunk, N, S, E, W whatever the
    input order was); it is only generated where it matters (a hard/fixed module with two or more branches)."""
    out = []
    if tier != "quick" or k % 2 == 0:
        out.append(["int", "fwd", "fwd"] if k % 4 < 2 else ["int", "rev", "rev"])
    n = (k % 2) if tier == "quick" else 1      # quick: int and one float embedding alternate from case to case
    for j in range(n):
        e = FLOATS[(k // 2 + j) % len(FLOATS)]
        out.append([e, "rev", "rev"] if (k // 2 + j) % 2 == 0 else [e, "fwd", "fwd"])
    if any(md["kind"] != "soft" and len(md["rects"]) > 2 for md in net):
        out.append([FLOATS[(k + 3) % len(FLOATS)], "rev", "fwd"])
    return out


# ------------------------------------------------------------------------------------------------ judgement
def _phase(ctx: Ctx, name: str, t0: float):
    ctx.extra.setdefault("phase_s", {})[name] = round(time.time() - t0, 1)


def features_of(variants: list[str], clause: str, which: str, tags: list[str], out: list[dict] | None = None) -> dict:
    """Bookkeeping for the known-findings matcher (never used for the judgement)."""
    nums = {"int" if v.startswith("int/") else "float" for v in variants}
    orders = {"same" if v.split("/")[1] == v.split("/")[2] else "mixed" for v in variants}
    # some module of the output lists the same rectangle twice (two rectangles coincide)
    dup = any(len({tuple(r) for r in o["rects"]}) < len(o["rects"]) for o in (out or []))
    return {"clause": clause, "which": which, "tags": "+".join(tags) or "none", "coincident_rects": dup,
            "numeric": "both" if len(nums) > 1 else nums.pop(), "order": "both" if len(orders) > 1 else orders.pop()}


def decide(ctx: Ctx, cases: list[dict], source: str) -> int:
    prepare_imports()
    import frame.netlist.netlist  # noqa: F401  (imported in the parent, used only in the children)
    import frame.die.die  # noqa: F401
    import tools.verifier.verifier  # noqa: F401
    t0 = time.time()
    results = run_cases(run_case, cases, nproc=int(os.environ.get("VERIF_NPROC", "16")), case_timeout=600)
    _phase(ctx, f"run_{source}", t0)
    traces, owners = {}, {}
    for c, (st, val) in zip(cases, results):
        if st != "ok":
            ctx.violation("no_result", {"w": c["w"], "net": c["net"], "out": c["events"][0]["out"], "variants": c["variants"]},
                          {"status": st}, {"clause": "no_result"})
            continue
        for vname, obs in val.items():
            evs = []
            for ev, ob in zip(c["events"], obs):
                ctx.count()
                evs.append({"out": ev["out"], "acc": ob["acc"], "tags": ob["tags"]})
            t = {"w": c["w"], "net": c["net"], "events": evs}
            key = digest(t)
            if key not in traces:
                t["id"] = key
                traces[key] = t
                owners[key] = []
            owners[key].append(vname)
    t0 = time.time()
    verdicts = tlc.validate_traces(ctx, TRACE, TRACE, list(traces.values()), chunk=1500)
    _phase(ctx, f"judge_{source}", t0)
    outq = 0
    for key, v in verdicts.items():
        t = traces[key]
        out = set(v["outq"])
        outq += len(out)
        same = [{"id": m + 1, "kind": md["kind"], "rects": md["rects"]} for m, md in enumerate(t["net"])]
        for l, ev in enumerate(t["events"], start=1):
            if l not in out:
                ctx.count(digest([t["w"], t["net"], ev["out"]]), nontrivial=ev["out"] != same, n=0)
        for (l, clause, which) in v["fails"]:
            ev = t["events"][l - 1]
            ctx.violation(clause, {"w": t["w"], "net": t["net"], "out": ev["out"], "variants": [x.split("/") for x in owners[key]]},
                          {"accepted": ev["acc"], "complaints": ev["tags"], "false_clause": which},
                          features_of(owners[key], clause, which, ev["tags"], ev["out"]))
        failed = {l for (l, _c, _w) in v["fails"]}
        for (l, _what, which) in v["drift"]:
            if l not in failed:
                tags = "+".join(t["events"][l - 1]["tags"]) or "none"
                ctx.model_drift(f"complaining checks differ from the model's (false clause: {which}; observed: {tags})")
    ctx.extra[f"outside_quantifier_{source}"] = ctx.extra.get(f"outside_quantifier_{source}", 0) + outq
    for t in list(traces.values())[:2]:
        ctx.sample({"trace": {"w": t["w"], "net": t["net"], "events": t["events"][:3]}, "variants": owners[t["id"]],
                    "source": source}, limit=6)
    return len(traces)


# ------------------------------------------------------------------------------------------------ random driver
def random_pairs(rng: random.Random) -> dict | None:
    """A C09 random floorplan with its random single edits turned into outputs, plus structural edits."""
    c = random_case(rng)
    if c is None:
        return None
    net = c["net"]

    def out_of(cfg):
        return [{"id": m + 1, "kind": md["kind"], "rects": cfg[m]} for m, md in enumerate(net)]

    events = [{"out": out_of(ev["cfg"]), "tag": "random"} for ev in c["events"]]
    base = out_of(c["events"][0]["cfg"])
    for _ in range(6):
        o = [dict(x) for x in (base if rng.random() < 0.6 else rng.choice(events)["out"])]
        op = rng.choice(["drop", "foreign", "kind"])
        if op == "drop" and len(o) > 1:
            del o[rng.randrange(len(o))]
        elif op == "foreign":
            x, y = rng.randint(0, c["w"]["dw"] - 2), rng.randint(0, c["w"]["dh"] - 2)
            o.append({"id": 0, "kind": "soft", "rects": [[x, y, x + rng.randint(1, 2), y + rng.randint(1, 2)]]})
        else:
            k = rng.randrange(len(o))
            o[k]["kind"] = rng.choice([x for x in ("soft", "hard", "fixed") if x != o[k]["kind"]])
        events.append({"out": o, "tag": "random"})
    return {"w": c["w"], "net": net, "events": events}


# ------------------------------------------------------------------------------------------------ entry point
def run(ctx: Ctx) -> int:
    tier = ctx.tier
    if ctx.replay:
        rec = json.load(open(ctx.replay))
        c = rec["case"]
        decide(ctx, [{"w": c["w"], "net": c["net"], "variants": c["variants"], "events": [{"out": c["out"], "tag": "replay"}]}], "replay")
        return ctx.finish("model_checking", "replay of one recorded (input, output) pair")

    for u in UNIVERSES[tier]:
        tlc.model_check(ctx, SPEC, f"{SPEC}_mc_{u}", vacuity_ignore=("VEmit", "MoveFirst", "Move", "PerturbAny", "Wild", "EmitNet"))
    if tier == "thorough":
        tlc.model_check(ctx, SPEC, f"{SPEC}_mc_chain", vacuity_ignore=("VEmit", "PerturbAny", "Wild", "EmitNet"))
    # the specification can see the deviations of today's code: transcribed AS CODED the invariant must fail
    res = tlc.run_tlc(ctx, SPEC, f"{SPEC}_mc_coded", expect_ok=False, tag="mc-as-coded")
    if res["ok"] or "InvVExact is violated" not in res["stdout"]:
        raise MachineryError("the as-coded model of the verifier does not violate InvVExact")
    cases = []
    for u in UNIVERSES[tier]:
        cases += tlc.generate(ctx, SPEC, f"{SPEC}_gen_{u}")
    tags: dict[str, int] = {}
    for k, c in enumerate(cases):
        c["variants"] = variants_for(k, c["net"], tier)
        for ev in c["events"]:
            tags[ev["tag"]] = tags.get(ev["tag"], 0) + 1
    missing = [t for t in VCLAUSES + ["ok"] if not tags.get(t)]
    if missing:
        raise MachineryError(f"vacuous generation: no output for {missing}")
    ntr = decide(ctx, cases, "tlc")
    rng = random.Random(ctx.seed * 1000003 + 909)
    rcases = []
    want = 100 if tier == "quick" else 600
    while len(rcases) < want:
        c = random_pairs(rng)
        if c is None:
            continue
        c["variants"] = variants_for(len(rcases), c["net"], tier)
        rcases.append(c)
    ntr += decide(ctx, rcases, "random")
    ctx.extra["embeddings"] = ["int"] + FLOATS
    ctx.extra["cases_from_tlc"] = len(cases)
    ctx.extra["cases_random"] = len(rcases)
    ctx.extra["outputs_per_clause_tlc"] = tags
    ctx.extra["distinct_traces"] = ntr
    ctx.assumptions += [
        "contract = same module set and kinds, hard modules congruent (translation), fixed modules in place, the rectangles of a "
        "soft module provide its required area, every rectangle in the die, no overlap between or inside modules; ratio, "
        "attachment, extent and branch order are not claimed by the verifier and are not required",
        "outputs are written as the legaliser writes them: a soft module repeats the input's area attribute, a module keeps "
        "its number of rectangles; default --epsilon (1e-10), five orders of magnitude below the smallest lattice step used",
        "float dimension sampled by 7 embeddings (int, 1.0, 1/2, 1/10, 1/3, 1e3, 1e-3), not enumerated; two listing orders, and "
        "input/output listed in different orders for hard modules with >= 2 branches",
        "verdict observed on stdout of main(): 'No errors were found!' = accepted (main always returns 0)",
    ]
    return ctx.finish(
        "model_checking",
        "TLC enumerates every netlist of the bounded universes of C09 and, per netlist, every output that repeats the configuration, "
        "applies one geometric edit (Legal.Edits) or one structural edit (module dropped / foreign module / kind changed), around the "
        "original configuration and around one legal neighbour, keeping those with at most one false contract clause; evaluations = "
        "(pair, embedding/listing variant) runs of the real main(); distinct non-trivial = distinct (die, input, output) judged by TLC "
        "with output != input",
        exhaustive=False)
