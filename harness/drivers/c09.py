"""C09 -- the legaliser's constraint system admits exactly the legal floorplans.

TLC (Legal) builds netlists of single-trunk orthogons that are legal floorplans, checks at design level that
the transcribed equation system is met <=> the configuration is legal, and emits, per netlist, the original
configuration plus every single-edit neighbour that is legal or violates exactly one legality clause by a
clear margin.  For every netlist x embedding the real `tools.legalfloor` model is built (Netlist -> netlist_to_utils
-> Model, no solve), the slack is annealed to 0, each configuration is assigned to the model's variables and
`Equation.is_equation_met()` is evaluated for every equation of the legality groups.  The answers (all met?,
which groups refuse) go back to TLC (LegalTrace), which recomputes legality from the statement's clauses and
judges `all met <=> legal`.  A seeded random driver adds larger dies / more modules / more branches / rational
ratio limits on the same path.
"""
from __future__ import annotations

import contextlib
import io
import json
import os
import random
import shutil
import time

from ..core import Ctx, MachineryError, digest
from ..forkpool import prepare_imports, run_cases
from ..lattice import EMBEDDINGS, OffLattice
from .. import tlc

SPEC = "Legal"
TRACE = "LegalTrace"
# the groups that are not part of the legality system (DESIGN 4, C09): step caps of the optimiser, pinned time
NOT_LEGALITY = ("radius", "Exact Value")
# embeddings: the die origin is (0,0) (`off` does not apply); `tiny` is excluded because the system has absolute
# tolerances (1e-6 in is_equation_met, lower bound 0.1 on w and h): dies are assumed to be in units >= ~1
FLOATS = ["flt", "half", "dec", "third", "big"]
CLAUSES = ["inDie", "ratio", "area", "attached", "withinExtent", "sideOrder", "intraDisjoint", "interDisjoint",
           "hardCongruent", "fixedInPlace"]
# unequal same-side branches; very elongated dies; hard shapes beyond the ratio limit; soft modules drawn above / below their area
EXTRA = ["quick_long", "quick_wide", "quick_tall", "quick_xratio", "quick_area"]
UNIVERSES = {"quick": ["quick", "quick_multi"] + EXTRA, "thorough": ["thorough", "thorough_multi", "thorough_r3"] + EXTRA}
NO_BRANCHES = ("quick_wide", "quick_tall")
LOC2ROLE = {"TRUNK": "T", "NORTH": "N", "SOUTH": "S", "EAST": "E", "WEST": "W"}


# ------------------------------------------------------------------------------------------------ inputs
def usable(en: str, w: dict, nmods: int) -> bool:
    """The smoothing tolerance tau = 0.01*min(W,H)/#modules must stay below one lattice overlap:
    tau^2 < 0.4 lattice units^4 (Legal.tla, Clear), otherwise the embedding is outside the margin analysis."""
    if nmods < 2:
        return True
    step = float(EMBEDDINGS[en].step)
    return (0.01 * min(w["dw"], w["dh"]) / nmods) ** 2 / step ** 2 < 0.4


def variants_for(k: int, w: dict, nmods: int, tier: str) -> list[list[str]]:
    """[embedding, listing order] pairs.  `int` exercises the isinstance(x, float) branch of Model.fix; the float
    embeddings rotate with the case number; `rev` lists the branches in reverse with the trunk second (see listing)."""
    fl = [e for e in FLOATS if usable(e, w, nmods)]
    out = [["int", "fwd" if k % 2 == 0 else "rev"]]
    if max(w["dw"], w["dh"]) >= 10 * min(w["dw"], w["dh"]) and nmods >= 2:
        # very elongated die: the smoothing tolerance 0.01*min(W,H)/n is far below 0.01*max(W,H)/n; the small steps are
        # the ones for which a clear lattice overlap lies between the two, so they are always used here
        for e in ("dec", "third", "half"):
            if e in fl:
                out.append([e, "rev" if len(out) % 2 else "fwd"])
        return out
    n = 1 if tier == "quick" else 2
    for j in range(n):
        e = fl[(k + j) % len(fl)]
        if all(e != v[0] for v in out):
            out.append([e, "rev" if (k + j) % 2 == 0 else "fwd"])
    return out


def fmt(v) -> str:
    return repr(v)


def listing(md: dict, order: str) -> list[int]:
    """Order in which the rectangles of a module are listed in the document.  `fwd`: trunk, then the branches in
    the recorded order (ascending along each side).  `rev`: the branches in reverse order with the trunk in second
    place, so that after create_stog has brought the trunk to the front the branches of a side are met in
    DESCENDING position (legalfloor has to sort them itself) and the trunk is not the first rectangle."""
    k = len(md["rects"])
    if order == "fwd" or k == 1:
        return list(range(k))
    br = list(range(k - 1, 0, -1))
    return [br[0], 0] + br[1:]


def build_doc(net: list[dict], emb, order: str) -> str:
    """The FPEF netlist for the lattice netlist under an embedding (centre/size rectangles, YAML flow style)."""
    lines = ["Modules: {"]
    for m, md in enumerate(net):
        rects = [emb.rect(md["rects"][i]) for i in listing(md, order)]
        rs = ", ".join("[" + ", ".join(fmt(v) for v in r) + "]" for r in rects)
        if md["kind"] == "soft":
            attr = f"area: {fmt(emb.area(md['area']))}"
        elif md["kind"] == "hard":
            attr = "hard: true"
        else:
            attr = "fixed: true"
        lines.append(f"  M{m + 1}: {{ {attr}, rectangles: [{rs}] }}" + ("," if m + 1 < len(net) else ""))
    lines.append("}")
    if len(net) >= 2:
        lines.append("Nets: [[" + ", ".join(f"M{m + 1}" for m in range(len(net))) + "]]")
    else:
        lines.append("Nets: []")
    return "\n".join(lines) + "\n"


# ------------------------------------------------------------------------------------------------ the real code
def _observe(case: dict, en: str, order: str, probe=None) -> dict:
    """Build the real model for (netlist, embedding) and evaluate every configuration of the case.
    `probe(model, index, emb, event)`, when given, replaces the evaluation of the equations (used by the
    LEGALPOST driver, which calls the post-processing methods on the model with the assigned configuration)."""
    import tempfile
    from frame.geometry.geometry import Rectangle
    from frame.netlist.netlist import Netlist
    from tools.legalfloor import legalfloor as lf
    from tools.legalfloor import expression_tree as et

    emb = EMBEDDINGS[en]
    net, w = case["net"], case["w"]
    # process-wide state of the code under test back to its import-time value
    Rectangle.undefine_epsilon()
    et.named_variables.clear()
    et.debug_print = 0xFF
    tmp = tempfile.mkdtemp(prefix="gk")
    old_tmp = tempfile.tempdir
    tempfile.tempdir = tmp
    try:
        sink = io.StringIO()
        with contextlib.redirect_stdout(sink):
            try:
                netlist = Netlist(build_doc(net, emb, order))
                u = lf.netlist_to_utils(netlist)
                ml, al, xl, yl, wl, hl, hyper, names = u
                model = lf.Model(ml, al, xl, yl, wl, hl, emb.length(w["dw"]), emb.length(w["dh"]), hyper,
                                 w["rp"] / w["rq"], names, 0.9, 0.3, 1)
                # anneal the slack to zero
                model.time.assign(500.0)
                model.gekko.fix(model.time)
                eps = et.get_epsilon()
            except Exception as e:  # building the system for an in-quantifier netlist must not fail
                return {"exc": f"{type(e).__name__}: {e}"}
            if eps != 0:
                return {"exc": f"slack not annealed: epsilon = {eps!r}"}
            # roles FRAME assigned (diagnostic) and the map  model rectangle -> recorded rectangle
            rolesok = 1
            index = []  # per module: list, model rectangle j -> recorded rectangle i
            mapped = 1
            for m, name in enumerate(names):
                md = net[int(name[1:]) - 1]
                fr = netlist.get_module(name)
                want = {tuple(t): (i, md["roles"][i]) for i, t in enumerate(md["rects"])}
                for r in fr.rectangles:
                    try:
                        key = tuple(emb.back_rectangle(r))
                    except OffLattice:
                        key = None
                    if key not in want or LOC2ROLE.get(r.location.name) != want[key][1]:
                        rolesok = 0
                mm = model.M[m]
                idx = []
                for j in range(len(mm.x)):
                    try:
                        key = tuple(emb.back_rect(mm.x[j].evaluate(), mm.y[j].evaluate(), mm.w[j].evaluate(),
                                                  mm.h[j].evaluate()))
                    except OffLattice:
                        key = None
                    idx.append(want[key][0] if key in want else None)
                if sorted(i for i in idx if i is not None) != list(range(len(md["rects"]))):
                    # fall back on the documented order: trunk, then N, S, E, W in listing order
                    mapped = 0
                    lst = listing(md, order)
                    idx = [0] + [i for s in "NSEW" for i in lst if md["roles"][i] == s]
                index.append((int(name[1:]) - 1, idx))
            obs = []
            for ev in case["events"]:
                cfg = ev["cfg"]
                for m, (sm, idx) in enumerate(index):
                    mm = model.M[m]
                    for j, i in enumerate(idx):
                        cx, cy, ww, hh = emb.rect(cfg[sm][i])
                        mm.x[j].assign(float(cx))
                        mm.y[j].assign(float(cy))
                        mm.w[j].assign(float(ww))
                        mm.h[j].assign(float(hh))
                if probe is not None:
                    obs.append(probe(model, index, emb, ev))
                    continue
                bad = set()
                neq = 0
                try:
                    for g, eqs in model.gekko.constraints.items():
                        if g in NOT_LEGALITY:
                            continue
                        for e in eqs:
                            neq += 1
                            if not e.is_equation_met():
                                bad.add(g)
                    for mac in model.gekko.macros:
                        for g, e in mac.get_constraints(model.gekko):
                            neq += 1
                            if not e.is_equation_met():
                                bad.add(g)
                except Exception as e:
                    obs.append({"exc": f"{type(e).__name__}: {e}"})
                    continue
                obs.append({"met": int(not bad), "bad": sorted(bad), "neq": neq})
            return {"obs": obs, "rolesok": rolesok, "mapped": mapped}
    finally:
        tempfile.tempdir = old_tmp
        shutil.rmtree(tmp, ignore_errors=True)


def run_case(case: dict) -> dict:
    return {f"{en}/{order}": _observe(case, en, order) for en, order in case["variants"]}


# ------------------------------------------------------------------------------------------------ judgement
def _phase(ctx: Ctx, name: str, t0: float):
    ctx.extra.setdefault("phase_s", {})[name] = round(time.time() - t0, 1)


def features_of(net: list[dict], variants: list[str], clause: str, which: str, bad: list[str]) -> dict:
    hard_branch = any(md["kind"] in ("hard", "fixed") and len(md["rects"]) > 1 for md in net)
    nums = {"int" if v.startswith("int/") else "float" for v in variants}
    return {"clause": clause, "hard_branch": hard_branch, "which": which, "bad": "+".join(bad) or "none",
            "numeric": "both" if len(nums) > 1 else nums.pop(),
            "kinds": "+".join(sorted({md["kind"] for md in net}))}


def decide(ctx: Ctx, cases: list[dict], source: str):
    """Run the cases on the real code, then let TLC judge every distinct observation."""
    prepare_imports()
    import frame.netlist.netlist  # noqa: F401  (imported in the parent, used only in the children)
    import tools.legalfloor.legalfloor  # noqa: F401
    nproc = int(os.environ.get("VERIF_NPROC", "16"))
    t0 = time.time()
    results = run_cases(run_case, cases, nproc=nproc, case_timeout=600)
    _phase(ctx, f"run_{source}", t0)
    traces, owners = {}, {}
    for c, (st, val) in zip(cases, results):
        if st != "ok":
            ctx.violation("no_result", {"w": c["w"], "net": c["net"], "variants": c["variants"], "cfg": c["events"][0]["cfg"]},
                          {"status": st}, {"clause": "no_result"})
            continue
        for vname, o in val.items():
            if "exc" in o:
                ctx.violation("raises", {"w": c["w"], "net": c["net"], "variants": [vname.split("/")], "cfg": c["events"][0]["cfg"]},
                              o, features_of(c["net"], [vname], "raises", "none", []))
                continue
            if not o["mapped"]:
                ctx.model_drift("model rectangles could not be matched by their initial values (positional order used)")
            evs = []
            for ev, ob in zip(c["events"], o["obs"]):
                ctx.count()
                if "exc" in ob:
                    ctx.violation("raises", {"w": c["w"], "net": c["net"], "variants": [vname.split("/")], "cfg": ev["cfg"]},
                                  ob, features_of(c["net"], [vname], "raises", "none", []))
                    continue
                evs.append({"cfg": ev["cfg"], "met": ob["met"], "bad": ob["bad"]})
            t = {"w": c["w"], "net": c["net"], "rolesok": o["rolesok"], "events": evs}
            key = digest(t)
            if key not in traces:
                t["id"] = key
                traces[key] = t
                owners[key] = []
            owners[key].append(vname)
    t0 = time.time()
    verdicts = tlc.validate_traces(ctx, TRACE, TRACE, list(traces.values()), chunk=1500)
    _phase(ctx, f"judge_{source}", t0)
    outq = 0
    for key, v in verdicts.items():
        t = traces[key]
        out = set(v["outq"])
        outq += len(out)
        orig = [md["rects"] for md in t["net"]]
        for l, ev in enumerate(t["events"], start=1):
            if l not in out:
                ctx.count(digest([t["w"], t["net"], ev["cfg"]]), nontrivial=ev["cfg"] != orig, n=0)
        for (l, clause, which) in v["fails"]:
            ev = t["events"][l - 1]
            ctx.violation(clause, {"w": t["w"], "net": t["net"], "cfg": ev["cfg"], "variants": [x.split("/") for x in owners[key]]},
                          {"all_met": ev["met"], "groups_with_unmet_equation": ev["bad"], "false_clause": which},
                          features_of(t["net"], owners[key], clause, which, ev["bad"]))
        failed = {l for (l, _c, _w) in v["fails"]}
        for (l, what, which) in v["drift"]:
            if l in failed:
                continue
            if what == "roles":
                ctx.model_drift("FRAME's STOG roles differ from the recorded ones (property clauses hold)")
            else:
                ctx.model_drift(f"groups with an unmet equation differ from the model's (false clause: {which})")
    ctx.extra[f"outside_quantifier_{source}"] = ctx.extra.get(f"outside_quantifier_{source}", 0) + outq
    for t in list(traces.values())[:2]:
        ctx.sample({"trace": {"w": t["w"], "net": t["net"], "events": t["events"][:3]}, "variants": owners[t["id"]],
                    "source": source}, limit=6)
    return len(traces)


# ------------------------------------------------------------------------------------------------ random driver
def _ov(a, b):
    return min(a[2], b[2]) > max(a[0], b[0]) and min(a[3], b[3]) > max(a[1], b[1])


def _ar_ok(t, rp, rq):
    w, h = t[2] - t[0], t[3] - t[1]
    return max(w, h) * rq <= min(w, h) * rp


def random_case(rng: random.Random) -> dict | None:
    """A larger legal floorplan built by construction (its well-formedness is re-checked by TLC: NetOK) and a
    set of random single edits of it (classified by TLC; those outside the quantifier are not judged)."""
    dw, dh = rng.randint(12, 30), rng.randint(12, 30)
    x0 = y0 = 0
    xw, yw = dw, dh
    if rng.random() < 0.25:
        # a very elongated die (aspect 10:1 .. 40:1, both orientations); the modules are placed in a short window of it
        short = rng.randint(8, 10)
        long_ = short * rng.randint(10, 40)
        dw, dh = (long_, short) if rng.random() < 0.5 else (short, long_)
        xw, yw = min(dw, 14), min(dh, 14)
        x0, y0 = rng.randint(0, dw - xw), rng.randint(0, dh - yw)
    rp, rq = rng.choice([(2, 1), (3, 1), (3, 2), (5, 2)])
    nm = rng.randint(2, 4)
    net, placed = [], []
    for _ in range(nm):
        kind = rng.choice(["soft", "soft", "hard", "hard", "fixed"])
        # a hard / fixed module may be GIVEN with rectangles beyond the ratio limit (then nothing with that shape is legal)
        any_ratio = kind != "soft" and rng.random() < 0.3
        for _try in range(60):
            tw, th = rng.randint(1 if any_ratio else 2, min(9, xw)), rng.randint(1 if any_ratio else 2, min(9, yw))
            x, y = x0 + rng.randint(0, xw - tw), y0 + rng.randint(0, yw - th)
            t = [x, y, x + tw, y + th]
            if (any_ratio or _ar_ok(t, rp, rq)) and not any(_ov(t, r) for r in placed):
                break
        else:
            continue
        rects, roles = [t], ["T"]
        for _b in range(rng.choice([0, 1, 1, 2, 3])):
            s = rng.choice("NSEW")
            lo_t, hi_t = (t[0], t[2]) if s in "NS" else (t[1], t[3])
            if hi_t - lo_t < 2:
                continue
            ln = rng.randint(1, hi_t - lo_t - 1)
            dp = rng.randint(1, 4)
            lo = rng.randint(lo_t, hi_t - ln)
            b = {"N": [lo, t[3], lo + ln, t[3] + dp], "S": [lo, t[1] - dp, lo + ln, t[1]],
                 "E": [t[2], lo, t[2] + dp, lo + ln], "W": [t[0] - dp, lo, t[0], lo + ln]}[s]
            if b[0] < 0 or b[1] < 0 or b[2] > dw or b[3] > dh or not (any_ratio or _ar_ok(b, rp, rq)):
                continue
            if any(_ov(b, r) for r in placed) or any(_ov(b, r) for r in rects):
                continue
            rects.append(b)
            roles.append(s)
        tot = sum((r[2] - r[0]) * (r[3] - r[1]) for r in rects)
        slack = rng.choice([0, 0, 1, 2, 3, -1, -2, -3]) if kind == "soft" else 0   # negative: drawn below the declared area
        slack = min(slack, tot - 1)
        net.append({"kind": kind, "area": tot - slack, "slack": slack, "rects": rects, "roles": roles})
        placed += rects
    if len(net) < 2:
        return None
    orig = [[list(r) for r in md["rects"]] for md in net]
    cfgs = [orig]

    def clone(c):
        return [[list(r) for r in m] for m in c]

    def edit(c):
        c = clone(c)
        m = rng.randrange(len(c))
        op = rng.choice(["tr", "tr", "slide", "edge", "edge", "drag", "swap"])
        if op == "tr":
            dx, dy = rng.randint(-4, 4), rng.randint(-4, 4)
            c[m] = [[r[0] + dx, r[1] + dy, r[2] + dx, r[3] + dy] for r in c[m]]
        elif op == "slide" and len(c[m]) > 1:
            i = rng.randrange(1, len(c[m]))
            dx, dy = rng.choice([(1, 0), (-1, 0), (0, 1), (0, -1), (2, 0), (-2, 0), (0, 2), (0, -2), (3, 0), (0, -3)])
            r = c[m][i]
            c[m][i] = [r[0] + dx, r[1] + dy, r[2] + dx, r[3] + dy]
        elif op == "edge":
            i = rng.randrange(len(c[m]))
            c[m][i][rng.randrange(4)] += rng.choice([-2, -1, 1, 2])
        elif op == "drag" and len(c[m]) > 1:
            e = rng.randrange(4)
            d = rng.choice([-2, -1, 1, 2])
            side = "WSEN"[e]
            c[m][0][e] += d
            for i in range(1, len(c[m])):
                if net[m]["roles"][i] == side:
                    r = c[m][i]
                    c[m][i] = [r[0] + d, r[1], r[2] + d, r[3]] if e in (0, 2) else [r[0], r[1] + d, r[2], r[3] + d]
        elif op == "swap":
            same = [(i, j) for i in range(1, len(c[m])) for j in range(i + 1, len(c[m]))
                    if net[m]["roles"][i] == net[m]["roles"][j]]
            if same:
                i, j = rng.choice(same)
                s = net[m]["roles"][i]
                a = 0 if s in "NS" else 1
                if c[m][i][a] > c[m][j][a]:
                    i, j = j, i
                lo, hi = c[m][i][a], c[m][j][a + 2]
                li, lj = c[m][i][a + 2] - c[m][i][a], c[m][j][a + 2] - c[m][j][a]
                c[m][j][a], c[m][j][a + 2] = lo, lo + lj
                c[m][i][a], c[m][i][a + 2] = hi - li, hi
        return c

    base = orig
    for k in range(44):
        c = edit(base)
        if all(r[0] < r[2] and r[1] < r[3] for m in c for r in m) and c not in cfgs:
            cfgs.append(c)
        if k == 21:
            # continue from a (probably legal) moved configuration
            mv = [c for c in cfgs[1:] if c != orig]
            base = rng.choice(mv) if mv else orig
    return {"w": {"dw": dw, "dh": dh, "rp": rp, "rq": rq}, "net": net,
            "events": [{"cfg": c, "tag": "random"} for c in cfgs]}


# ------------------------------------------------------------------------------------------------ entry point
def run(ctx: Ctx) -> int:
    tier = ctx.tier
    if ctx.replay:
        rec = json.load(open(ctx.replay))
        c = rec["case"]
        orig = [md["rects"] for md in c["net"]]
        case = {"w": c["w"], "net": c["net"], "variants": c["variants"],
                "events": [{"cfg": orig, "tag": "orig"}] + ([{"cfg": c["cfg"], "tag": "replay"}] if c["cfg"] != orig else [])}
        decide(ctx, [case], "replay")
        return ctx.finish("model_checking", "replay of one recorded case (original configuration + the recorded one)")

    # 1. design level: the specified system is exact, the construction is legal, perturbations are single-clause
    for u in UNIVERSES[tier]:
        tlc.model_check(ctx, SPEC, f"{SPEC}_mc_{u}",
                        vacuity_ignore=("EmitNet", "Wild") + (("AttachAny",) if u in NO_BRANCHES else ()))
    if tier == "thorough":
        # Perturb/Wild from moved configurations as well, and the multi-violation neighbours
        tlc.model_check(ctx, SPEC, f"{SPEC}_mc_chain", vacuity_ignore=("EmitNet",))
        # the specification can see the known defect: with Model.fix transcribed AS CODED the invariant must fail
        for mode in ("coded_float", "coded_int"):
            res = tlc.run_tlc(ctx, SPEC, f"{SPEC}_mc_{mode}", expect_ok=False, tag="mc-as-coded")
            if res["ok"] or "InvSystemExact is violated" not in res["stdout"]:
                raise MachineryError(f"the as-coded model of Model.fix ({mode}) does not violate InvSystemExact")
    # 2. spec -> code: cases from TLC
    cases = []
    for u in UNIVERSES[tier]:
        cases += tlc.generate(ctx, SPEC, f"{SPEC}_gen_{u}")
    tags: dict[str, int] = {}
    for k, c in enumerate(cases):
        c["variants"] = variants_for(k, c["w"], len(c["net"]), tier)
        for ev in c["events"]:
            tags[ev["tag"]] = tags.get(ev["tag"], 0) + 1
    missing = [t for t in CLAUSES + ["legal"] if not tags.get(t)]
    if missing:
        raise MachineryError(f"vacuous generation: no configuration for {missing}")
    ntr = decide(ctx, cases, "tlc")
    # 3. seeded random driver: larger dies, more modules and branches, rational ratio limits, larger edits
    rng = random.Random(ctx.seed * 1000003 + 9)
    rcases = []
    want = 150 if tier == "quick" else 1000
    while len(rcases) < want:
        c = random_case(rng)
        if c is None:
            continue
        c["variants"] = variants_for(len(rcases), c["w"], len(c["net"]), tier)
        rcases.append(c)
    ntr += decide(ctx, rcases, "random")
    ctx.extra["embeddings"] = ["int"] + FLOATS
    ctx.extra["cases_from_tlc"] = len(cases)
    ctx.extra["cases_random"] = len(rcases)
    ctx.extra["configurations_per_clause_tlc"] = tags
    ctx.extra["distinct_traces"] = ntr
    ctx.assumptions += [
        "float dimension sampled by 6 embeddings of the integer lattice (steps 1 as int, 1.0, 1/2, 1/10, 1/3, 1e3), not enumerated; "
        "`off` does not apply (the die origin is (0,0)); `tiny` excluded: the system has absolute tolerances (1e-6, w,h >= 0.1)",
        "legality groups = every group of gekko.constraints and of every macro's get_constraints except `radius` (step caps "
        "relative to the start point) and `Exact Value` (pinned time); variable bounds (lb/ub) are not equations and are not observed",
        "slack annealed to zero through the model's own time variable (time = 500 => get_epsilon() == 0)",
        "smoothed no-overlap equation: only embeddings with tau^2 < 0.4 lattice units^4 are used, so every lattice overlap "
        "(t1*t2 >= 1) is outside the smoothing tolerance; perturbations of interDisjoint overlap deeply (t1*t2 >= 4)",
        "hard modules: congruent = a translate of the original shape (sizes and offsets from the trunk); rotations/flips are not generated",
        "netlists: every module an unambiguous single-trunk orthogon (each branch strictly shorter than its trunk side)",
    ]
    return ctx.finish(
        "model_checking",
        "TLC enumerates every netlist of the bounded universes (1-3 modules, trunk + <= 2 branches, soft/hard/fixed; dies 8x8 .. 10x10, "
        "400x4 and 4x400) and, per netlist, "
        "the original configuration and every single-edit neighbour (module translation, branch slide, trunk slide, edge move, trunk-edge drag, "
        "branch swap) that is legal or falsifies exactly one clause; evaluations = (netlist, embedding, configuration) triples on the "
        "real model; distinct non-trivial = distinct (die, netlist, configuration) judged by TLC with configuration != original",
        exhaustive=False)
