"""FORCETOOL -- the command-line stage `frame force` (tools/force/force.py) and tools/force/gekko_common.py.

TLC (ForceTool) model-checks the stage as a state machine over the documents of Pipeline.tla (ParseArgs -> Load ->
AddNoise -> BuildModel -> SolveKK -> ExtractKK -> ForceAlgorithm -> SaveGif -> Write; the two relocation steps are
contracts) with the frame conditions as invariants, and emits the invocations: command line (options present / absent /
unknown, files usable or not, --out-netlist and --visualize on or off) x small design (mixed, all modules fixed, one
module, no nets, nets between pins only, two modules, coincident centres, centres on the border, a movable hard module,
a movable pin, a module without centre) x die.

Every invocation is executed with the real `tools.force.force.main(prog, args)` on files in a scratch directory, seen
through harness-side wrappers of the module-level names it resolves at call time (add_noise, kamada_kawai_layout,
force_algorithm; Model and solve_and_extract_solution inside kamada_kawai), so that the netlist in memory and the GEKKO
model are recorded after every step.  Afterwards the working directory is listed, the output file is read back with the
reader of the next stage, the input file is read again, and the run is repeated with the same seed (same process, and
in a separate freshly forked process).  gekko_common is also called directly: Model(die), extract_solution on the model
that was not solved, get_value on a family of arguments.  ForceToolTrace replays everything through ForceTool's own
actions and judges every step.  GEKKO 'solution not found' is counted, not reported.
"""
from __future__ import annotations

import contextlib
import hashlib
import io
import json
import math
import os
import random
import shutil
import traceback

from ..core import Ctx, MachineryError, digest
from ..forkpool import prepare_imports, run_cases
from .. import tlc
from .pipeline import _kind, _no_solution, _u, read_netlist

NONET = {"mods": [], "nets": []}


# ------------------------------------------------------------------------------------------ designs (= ForceTool!Design)
def build_design(name: str, W: float, H: float) -> dict:
    A = {"area": 1, "center": [W / 4, H / 4]}
    B = {"area": 2, "center": [W - W / 4, H / 4]}
    C = {"area": 1, "center": [W / 2, H - H / 4]}
    P = {"terminal": True, "fixed": True, "center": [0.0, H / 2]}
    K = {"fixed": True, "rectangles": [[W - W / 8, H - H / 8, W / 4, H / 4]]}
    if name == "mixed":
        return {"Modules": {"A": A, "B": B, "C": C, "P": P, "K": K},
                "Nets": [["A", "B"], ["B", "C", 2.0], ["P", "A"], ["K", "C"], ["A", "B", "C"]]}
    if name == "allfixed":
        return {"Modules": {"P": P, "K": K, "L": {"fixed": True, "rectangles": [[W / 4, H / 4, W / 4, H / 4]]}},
                "Nets": [["P", "K"], ["K", "L"]]}
    if name == "one":
        return {"Modules": {"A": A}}
    if name == "nonets":
        return {"Modules": {"A": A, "B": B}}
    if name == "pinnets":
        return {"Modules": {"A": A, "B": B, "P": P, "Q": {"terminal": True, "fixed": True, "center": [float(W), H / 2]}},
                "Nets": [["P", "Q"]]}
    if name == "two":
        return {"Modules": {"A": A, "B": B}, "Nets": [["A", "B"]]}
    if name == "coincident":
        c = [W / 2, H / 2]
        return {"Modules": {"A": {"area": 1, "center": c}, "B": {"area": 2, "center": list(c)}, "C": {"area": 1, "center": list(c)}},
                "Nets": [["A", "B"], ["B", "C"]]}
    if name == "border":
        return {"Modules": {"A": {"area": 1, "center": [0.0, 0.0]}, "B": {"area": 2, "center": [float(W), float(H)]},
                            "C": {"area": 1, "center": [float(W), 0.0]}}, "Nets": [["A", "B"], ["B", "C"]]}
    if name == "hardmov":
        return {"Modules": {"A": A, "H": {"hard": True, "rectangles": [[W / 2, H / 2, W / 4, H / 4], [W / 2, H - H / 4, W / 4, H / 4]]}},
                "Nets": [["A", "H"]]}
    if name == "movpin":
        return {"Modules": {"A": A, "B": B, "T": {"terminal": True, "center": [float(W), 0.0]}}, "Nets": [["A", "B"], ["T", "B"]]}
    if name == "nocentre":
        return {"Modules": {"A": {"area": 1}, "B": B}, "Nets": [["A", "B"]]}
    raise MachineryError(f"unknown design {name}")


def mem_doc(netlist, S) -> dict:
    """the netlist IN MEMORY as an abstract document (module.center as it is, not recomputed from rectangles)"""
    mods = []
    for m in netlist.modules:
        c = m.center
        mods.append([m.name, _kind(m), round(m.area() * 1000), int(c is not None),
                     _u(c.x, S) if c is not None else 0, _u(c.y, S) if c is not None else 0])
    return {"mods": mods, "nets": [[round(e.weight * 1000), [b.name for b in e.modules]] for e in netlist.edges]}


def _val(v):
    """value of a GEKKO object or a number, without going through the code under test"""
    if isinstance(v, (int, float)) and not isinstance(v, bool):
        return float(v)
    x = v.value
    x = getattr(x, "value", x)
    if hasattr(x, "__getitem__"):
        x = x[0]
    return float(x)


def model_rows(model, S) -> list:
    rows = []
    for x, y in zip(model.x, model.y):
        if isinstance(x, (int, float)):
            rows.append([0, 0, 0, 0, 0, _u(float(x), S), _u(float(y), S)])
        else:
            rows.append([1, _u(float(x.LOWER), S), _u(float(x.UPPER), S), _u(float(y.LOWER), S), _u(float(y.UPPER), S),
                         _u(_val(x), S), _u(_val(y), S)])
    return rows


def _where(e: BaseException) -> str:
    return ">".join(fr.name for fr in traceback.extract_tb(e.__traceback__)[-3:])


# ------------------------------------------------------------------------------------------ one invocation
def _prepare(case):
    """write the input files, build the argument list"""
    from ruamel.yaml import YAML
    W, H = case["die"]
    o = case["opts"]
    y = YAML()
    y.default_flow_style = False
    with open("in.yml", "w") as f:
        y.dump(build_design(case["design"], W, H), f)
    args = []
    if o["nl"] != "absent":
        args += ["--netlist", "in.yml" if o["nl"] == "ok" else "missing.yml"]
    if o["dieopt"] != "absent":
        if o["dieopt"] == "ok":
            if case["diefile"]:
                with open("die.yml", "w") as f:
                    y.dump({"width": W, "height": H}, f)
                args += ["--die", "die.yml"]
            else:
                args += ["-d", f"{W}x{H}"]
        else:
            args += ["--die", "nodie.yml" if o["dieopt"] == "nofile" else f"0x{H}"]
    if o["out"]:
        args += ["--out-netlist", "out.yml"]
    if o["vis"]:
        args += ["--visualize", "vis"]
    if o["unk"]:
        args += ["--kind", "kamada-kawai"]
    return args


def _main(args, seed):
    """force.main as a fresh process would run it; -> (status, note, where, usage_on_stderr)"""
    from frame.geometry.geometry import Rectangle
    import tools.force.force as force
    Rectangle.undefine_epsilon()
    random.seed(seed)
    out, err = io.StringIO(), io.StringIO()
    try:
        with contextlib.redirect_stdout(out), contextlib.redirect_stderr(err):
            force.main("force", list(args))
        return "ok", "", "", 0
    except BaseException as e:  # noqa: BLE001  (SystemExit from argparse included)
        if type(e).__name__ == "CaseTimeout":
            raise
        usage = int(isinstance(e, SystemExit) and e.code == 2 and "usage:" in err.getvalue())
        return ("usage" if usage else "raised"), f"{type(e).__name__}: {str(e)[:200]}", _where(e), usage


def run_flow(case):
    import tools.force.force as force
    import tools.force.kamada_kawai as kk
    d = case["dir"]
    os.makedirs(d, exist_ok=True)
    cwd = os.getcwd()
    os.chdir(d)
    try:
        W, H = case["die"]
        S = float(max(W, H))
        o = case["opts"]
        args = _prepare(case)
        infile, _raw, _nl = read_netlist("in.yml", S)
        in_bytes = open("in.yml", "rb").read()
        events = []
        trace = {"kind": "flow", "opts": o, "design": case["design"], "die": [_u(W, S), _u(H, S), round(S * 1000)],
                 "infile": infile, "events": events, "args": " ".join(args)}
        seen = {"parsed": False, "loaded": False}
        orig = {"parse": force.parse_options, "noise": force.add_noise, "kkl": force.kamada_kawai_layout, "fa": force.force_algorithm,
                "Model": kk.Model, "solve": kk.solve_and_extract_solution}
        models = []

        def ev(name, status="ok", **kw):
            e = {"ev": name, "status": status, "msg": 0, "net": NONET, "model": [], "note": "", "where": ""}
            e.update(kw)
            events.append(e)
            return e

        def step(name, fn, doc_of):
            try:
                res = fn()
            except BaseException as e:  # noqa: BLE001
                if type(e).__name__ == "CaseTimeout":
                    raise
                ev(name, "nosolution" if _no_solution(e) else "raised", note=f"{type(e).__name__}: {str(e)[:200]}", where=_where(e))
                raise
            ev(name, net=doc_of(res))
            return res

        def w_parse(prog=None, a=None):
            res = orig["parse"](prog, a)
            seen["parsed"] = True
            ev("args")
            return res

        def w_noise(die, *a, **k):
            seen["loaded"] = True
            loaded = mem_doc(die.netlist, S)
            if not all(m[3] for m in loaded["mods"]):
                # a module without centre: the stage refuses it in its first step ("Module has no center"); that is the
                # rejection of the input document, not a failure of the noise step
                try:
                    return orig["noise"](die, *a, **k)
                except AssertionError as e:
                    ev("load", "raised", msg=int(len(str(e)) > 0), note=f"AssertionError: {str(e)[:200]}", where=_where(e))
                    raise
            ev("load", net=loaded)
            return step("noise", lambda: orig["noise"](die, *a, **k), lambda r: mem_doc(r.netlist, S))

        def w_model(die):
            try:
                m = orig["Model"](die)
            except BaseException as e:  # noqa: BLE001
                ev("model", "raised", note=f"{type(e).__name__}: {str(e)[:200]}", where=_where(e))
                raise
            models.append(m)
            ev("model", model=model_rows(m, S))
            return m

        def w_solve(model, die, *a, **k):
            try:
                res = orig["solve"](model, die, *a, **k)
            except BaseException as e:  # noqa: BLE001
                if type(e).__name__ == "CaseTimeout":
                    raise
                ev("solved", "nosolution" if _no_solution(e) else "raised", note=f"{type(e).__name__}: {str(e)[:200]}", where=_where(e))
                raise
            ev("solved", model=model_rows(model, S))
            return res

        def w_kkl(die, *a, **k):
            n0 = len(events)
            try:
                res = orig["kkl"](die, *a, **k)
            except BaseException as e:  # noqa: BLE001
                if type(e).__name__ == "CaseTimeout":
                    raise
                if not any(x["status"] != "ok" for x in events[n0:]):      # failed outside Model / solve
                    ev("kk", "nosolution" if _no_solution(e) else "raised", note=f"{type(e).__name__}: {str(e)[:200]}", where=_where(e))
                raise
            ev("kk", net=mem_doc(res[0].netlist, S))
            return res

        def w_fa(die, *a, **k):
            return step("fr", lambda: orig["fa"](die, *a, **k), lambda r: mem_doc(r[0].netlist, S))

        force.parse_options, force.add_noise, force.kamada_kawai_layout, force.force_algorithm = w_parse, w_noise, w_kkl, w_fa
        kk.Model, kk.solve_and_extract_solution = w_model, w_solve
        try:
            status, note, where, usage = _main(args, case["seed"])
        finally:
            force.parse_options, force.add_noise, force.kamada_kawai_layout, force.force_algorithm = \
                orig["parse"], orig["noise"], orig["kkl"], orig["fa"]
            kk.Model, kk.solve_and_extract_solution = orig["Model"], orig["solve"]
        if not seen["parsed"]:
            ev("args", status, msg=usage, note=note, where=where)
        elif not seen["loaded"] and status != "ok":
            ev("load", "raised", msg=int(len(note.split(":", 1)[-1].strip()) > 0), note=note, where=where)
        # ---- what the run left behind
        known = {"in.yml": None, "die.yml": None, "out.yml": "out", "vis.gif": "gif"}
        present = sorted(os.listdir("."))
        files = sorted(known[f] for f in present if known.get(f))
        extra = [f for f in present if f not in known]
        end = {"ev": "end", "status": status, "msg": 0, "net": NONET, "model": [], "note": note, "where": where,
               "files": files, "extra": len(extra), "extra_names": " ".join(extra)[:200], "outdoc": NONET, "raw": [],
               "infile": infile, "same": -1, "fresh": -1, "vis_same": -1, "out_sha": ""}
        events.append(end)
        try:
            end["infile"] = read_netlist("in.yml", S)[0] if open("in.yml", "rb").read() == in_bytes else {"mods": [["__changed__", "soft", 0, 0, 0, 0]], "nets": []}
        except Exception:
            end["infile"] = {"mods": [["__unreadable__", "soft", 0, 0, 0, 0]], "nets": []}
        if "out" in files:
            try:
                end["outdoc"], end["raw"], _ = read_netlist("out.yml", S)
            except BaseException as e:  # noqa: BLE001
                end["outdoc"] = {"mods": [["__unreadable__", "soft", 0, 0, 0, 0]], "nets": []}
                end["note"] = f"reader: {type(e).__name__}: {str(e)[:200]}"
            first = open("out.yml", "rb").read()
            end["out_sha"] = hashlib.sha1(first).hexdigest()
            if status == "ok":       # the same command line and seed once more
                plain = [a for a in args]
                if "--visualize" in plain:       # repeat without the GIF: does observing change the result?
                    i = plain.index("--visualize")
                    del plain[i:i + 2]
                for a_i, a in enumerate(plain):
                    if a == "out.yml":
                        plain[a_i] = "out2.yml"
                st2 = _main(plain, case["seed"])[0]
                again = open("out2.yml", "rb").read() if (st2 == "ok" and os.path.exists("out2.yml")) else b"<failed>"
                if o["vis"]:
                    end["vis_same"] = int(again == first)
                else:
                    end["same"] = int(again == first)
        return trace
    finally:
        os.chdir(cwd)
        shutil.rmtree(d, ignore_errors=True)


def run_fresh(case):
    """the same command line and seed in a process that has done nothing else: -> sha1 of the output file"""
    d = case["dir"] + "-fresh"
    os.makedirs(d, exist_ok=True)
    cwd = os.getcwd()
    os.chdir(d)
    try:
        args = _prepare(case)
        st = _main(args, case["seed"])[0]
        return hashlib.sha1(open("out.yml", "rb").read()).hexdigest() if (st == "ok" and os.path.exists("out.yml")) else "<failed>"
    finally:
        os.chdir(cwd)
        shutil.rmtree(d, ignore_errors=True)


# ------------------------------------------------------------------------------------------ gekko_common called directly
def run_gk(case):
    from frame.geometry.geometry import Rectangle
    from frame.netlist.netlist import Netlist
    from frame.die.die import Die
    import numpy as np
    import tools.force.gekko_common as gc
    from .c13 import _sig
    W, H = case["die"]
    S = float(max(W, H))
    Rectangle.undefine_epsilon()
    nl = Netlist(build_design(case["design"], W, H))
    die = Die(f"{W}x{H}", nl)
    t = {"kind": "gk", "design": case["design"], "die": [_u(W, S), _u(H, S), round(S * 1000)], "net": mem_doc(nl, S),
         "opts": {"nl": "ok", "dieopt": "ok", "out": 0, "vis": 0, "unk": 0}, "infile": NONET, "events": []}
    model = gc.Model(die)
    t["model"] = model_rows(model, S)
    sig0 = _sig(die)
    try:
        back = gc.extract_solution(model, die)
        t["extract_status"], t["extracted"], t["same_object"] = 0, mem_doc(back.netlist, S), int(back is die)
        sig1 = _sig(back)
    except BaseException as e:  # noqa: BLE001
        t["extract_status"], t["extracted"], t["same_object"], sig1 = 1, NONET, 1, {"raised": repr(e)[:100]}
    t["sig_before"], t["sig_after"] = json.dumps(sig0, sort_keys=True), json.dumps(sig1, sort_keys=True)
    # get_value: "v: a variable or a value -> the value of v"
    g = model.gekko
    fam = [("float", 1.5, 1.5), ("int", 3, 3.0), ("numpy_float64", np.float64(2.5), 2.5), ("negative_float", -0.25, -0.25),
           ("variable_with_initial_value", g.Var(value=2.25, lb=0, ub=4), 2.25), ("parameter", g.Param(value=7.0), 7.0),
           ("constant", g.Const(3.0), 3.0)]
    try:    # a variable after a solve (its value is then a list)
        from gekko import GEKKO
        m2 = GEKKO(remote=False)
        x = m2.Var(value=1.0, lb=0, ub=4)
        m2.Equation(x == 3)
        m2.solve(disp=False)
        fam.append(("variable_after_solve", x, 3.0))
    except Exception:
        pass
    vals = []
    for label, v, want in fam:
        try:
            r = gc.get_value(v)
            ok = isinstance(r, float) and math.isfinite(r)
            vals.append([label, round(want * 1000), 0 if ok else 2, round(r * 1000) if ok else 0, ""])
        except BaseException as e:  # noqa: BLE001
            vals.append([label, round(want * 1000), 1, 0, f"{type(e).__name__}: {str(e)[:80]}"])
    t["getvals"] = vals
    return t


def run_case(case):
    return run_gk(case) if case["kind"] == "gk" else run_flow(case)


# ------------------------------------------------------------------------------------------ judging
def _features(t, l, clause):
    """clause, step (the event), status of the step, design; (raised) exception + innermost functions; what the command line
    asked for; and the cause: fixed_first_moved_at = first step after which a fixed module is not where it was loaded (and
    `shift` small = below 3 % of the die side); unconveyed = kinds of the movable modules whose relocated centre the
    output file does not convey; failing_args = the get_value arguments that failed; movable = number of movable modules"""
    if t["kind"] == "gk":
        return {"clause": clause, "step": "gekko_common", "design": t["design"], "status": "ok", "exception": "", "where": "",
                "failing_args": "+".join(v[0] for v in t["getvals"] if v[2] != 0 or abs(v[3] - v[1]) > 1) if clause.startswith("get_value") else ""}
    e = t["events"][l - 1]
    o = t["opts"]
    f = {"clause": clause, "step": e["ev"], "status": e["status"], "design": t["design"],
         "exception": e["note"].split(":")[0] if e["status"] in ("raised", "usage") else "", "where": e.get("where", ""),
         "invocation": f"nl={o['nl']} die={o['dieopt']} unk={o['unk']}", "out": o["out"], "vis": o["vis"]}
    load = next((x for x in t["events"] if x["ev"] == "load" and x["status"] == "ok"), None)
    if load:
        base = {m[0]: m for m in load["net"]["mods"]}
        f["movable"] = sum(1 for m in base.values() if m[1] not in ("block", "fpin"))
        first, worst = "", 0
        for x in t["events"]:
            doc = x["outdoc"] if x["ev"] == "end" else x["net"]
            for m in doc["mods"]:
                b = base.get(m[0])
                if b and b[1] in ("block", "fpin") and m[3] and max(abs(m[4] - b[4]), abs(m[5] - b[5])) > 2:
                    first = first or x["ev"]
                    worst = max(worst, abs(m[4] - b[4]), abs(m[5] - b[5]))
        f["fixed_first_moved_at"] = first or "never"
        f["shift"] = "none" if not first else "small" if worst < 30000 else "large"
    if clause == "output_conveys_relocation":
        mem = next((x for x in reversed(t["events"]) if x["ev"] == "fr" and x["status"] == "ok"), None)
        out = {m[0]: m for m in e["outdoc"]["mods"]}
        kinds = set()
        for m in (mem["net"]["mods"] if mem else []):
            q = out.get(m[0])
            if q is None or q[3] != m[3] or abs(q[4] - m[4]) > 2 or abs(q[5] - m[5]) > 2:
                kinds.add(m[1])
        f["unconveyed"] = "+".join(sorted(kinds)) or "none"
    return f


def decide(ctx: Ctx, cases: list[dict]):
    prepare_imports()
    import frame.die.die, frame.netlist.netlist  # noqa: F401,E401  (imported in the parent, used only in children)
    import tools.force.force, tools.force.kamada_kawai, tools.force.gekko_common  # noqa: F401,E401
    results = run_cases(run_case, cases, nproc=16, case_timeout=240)
    # the servable invocations that write a netlist, once more in a freshly forked process each
    again = [i for i, c in enumerate(cases) if c["kind"] == "flow" and c["opts"]["out"] == 1 and not c["opts"]["vis"]
             and results[i][0] == "ok" and results[i][1]["events"][-1]["status"] == "ok"]
    fresh = dict(zip(again, run_cases(run_fresh, [cases[i] for i in again], nproc=16, fresh=True, case_timeout=240)))
    traces, meta = {}, {}
    nosol = 0
    for i, (c, (st, t)) in enumerate(zip(cases, results)):
        if st != "ok":
            ctx.violation("step_completes", {"case": {k: c[k] for k in c if k != "dir"}}, {"status": st},
                          {"clause": "step_completes", "step": "?", "status": "worker_" + st, "design": c["design"]})
            continue
        if t["kind"] == "flow":
            end = t["events"][-1]
            if i in fresh:
                st2, sha = fresh[i]
                end["fresh"] = int(st2 == "ok" and sha == end["out_sha"])
            nosol += sum(1 for e in t["events"] if e["status"] == "nosolution")
            ctx.count(n=1 + (end["same"] >= 0) + (end["fresh"] >= 0) + (end["vis_same"] >= 0))
        else:
            ctx.count(n=2 + len(t["getvals"]))
        key = digest([t, c["seed"]])
        t["id"] = key
        traces[key] = t
        meta[key] = c
    verdicts = tlc.validate_traces(ctx, "ForceToolTrace", "ForceToolTrace", list(traces.values()), chunk=500)
    for key, v in verdicts.items():
        t, c = traces[key], meta[key]
        ctx.count(key, nontrivial=(t["kind"] == "gk" or len(t["events"]) >= 4), n=0)
        for (l, clause) in v["fails"]:
            if t["kind"] == "gk":
                detail = {"model": t["model"], "net": t["net"]["mods"], "extracted": t["extracted"]["mods"], "getvals": t["getvals"]}
            else:
                e = t["events"][l - 1]
                detail = {"args": t["args"], "step": e["ev"], "status": e["status"], "note": e["note"]}
                if e["ev"] == "end":
                    detail.update(files=e["files"], extra=e["extra_names"], output=e["outdoc"]["mods"], same=e["same"], fresh=e["fresh"])
                    fr_ev = next((x for x in reversed(t["events"]) if x["ev"] == "fr"), None)
                    if fr_ev:
                        detail["memory_after_force_algorithm"] = fr_ev["net"]["mods"]
                elif e["net"]["mods"]:
                    detail["netlist_after_step"] = e["net"]["mods"]
                    if l >= 2:
                        detail["netlist_before_step"] = t["events"][l - 2]["net"]["mods"] or t["infile"]["mods"]
                if e["model"]:
                    detail["model"] = e["model"]
            ctx.violation(clause, {"case": {k: c[k] for k in c if k != "dir"}}, detail, _features(t, l, clause))
        for (_l, what) in v["drift"]:
            ctx.model_drift(what)
    ctx.extra["gekko_no_solution"] = ctx.extra.get("gekko_no_solution", 0) + nosol
    ctx.extra["invocations"] = ctx.extra.get("invocations", 0) + sum(1 for c in cases if c["kind"] == "flow")
    ctx.extra["runs_repeated_in_a_fresh_process"] = ctx.extra.get("runs_repeated_in_a_fresh_process", 0) + len(again)
    for t in list(traces.values())[:4]:
        ctx.sample({"kind": t["kind"], "design": t["design"], "args": t.get("args", ""),
                    "steps": [[e["ev"], e["status"]] for e in t["events"]]})


def make_cases(gen, seed: int, root: str) -> list[dict]:
    gen = sorted(gen, key=lambda g: json.dumps(g, sort_keys=True))
    cases = []
    for i, g in enumerate(gen):
        rng = random.Random(seed * 1000003 + i)
        cases.append({"kind": "flow", "opts": g["opts"], "design": g["design"], "die": g["die"], "diefile": i % 3 == 1,
                      "seed": rng.randrange(1 << 30), "dir": os.path.join(root, f"inv{i}")})
    designs = sorted({(g["design"], tuple(g["die"])) for g in gen if g["design"] != "nocentre"})
    for j, (nm, die) in enumerate(designs):
        cases.append({"kind": "gk", "design": nm, "die": list(die), "seed": j, "dir": os.path.join(root, f"gk{j}"),
                      "opts": {"nl": "ok", "dieopt": "ok", "out": 0, "vis": 0, "unk": 0}})
    return cases


def _model_check(ctx: Ctx, spec: str, cfg: str, ignore=()):
    """model check with the vacuity test on TLC's FINAL coverage report"""
    res = tlc.run_tlc(ctx, spec, cfg, coverage=True, tag="mc")
    ctx.states += res["distinct"]
    ctx.transitions += res["generated"]
    last = {}
    for name, cnt, _d in res.get("coverage", []):
        last[name] = cnt
    zero = sorted(n for n, c in last.items() if c == 0 and n not in ("Init", "FInit") and n not in ignore)
    if zero or not last:
        raise MachineryError(f"vacuous model: actions never taken in {spec}/{cfg}: {zero}")
    return res


def run(ctx: Ctx) -> int:
    root = ctx.path("inv")
    if ctx.replay:
        rec = json.load(open(ctx.replay))
        c = dict(rec["case"]["case"], dir=os.path.join(root, "replay"))
        decide(ctx, [c])
        return ctx.finish("model_checking", "replay of one recorded invocation")
    tier = ctx.tier
    _model_check(ctx, "ForceTool", f"ForceTool_mc_{tier}", ignore=("EmitF",))
    gen = tlc.generate(ctx, "ForceTool", f"ForceTool_gen_{tier}")
    if not gen:
        raise MachineryError("TLC generated no invocations")
    cases = make_cases(gen, ctx.seed, root)
    decide(ctx, cases)
    ctx.extra["invocations_from_tlc"] = len(gen)
    ctx.assumptions += [
        "force.main is run in-process through main(prog, args) on files, with Rectangle's process-wide tolerances reset and "
        "random.seed(case seed) before every run (the tool has no --seed option: repeatability is judged for a seeded generator)",
        "the steps inside main are observed through wrappers of module-level names (add_noise, kamada_kawai_layout, force_algorithm, "
        "kamada_kawai.Model, kamada_kawai.solve_and_extract_solution); the relocation algorithms themselves are contracts",
        "lengths in 1e-6 of the larger die side (tolerance 2), add_noise bounded by 2.5 % of the die side (6 sd of its gaussian)",
        "there is no --kind / algorithm option in force.py: 'unknown algorithm' is exercised as an unknown option (--kind)",
    ]
    return ctx.finish(
        "model_checking",
        "one evaluation = one execution of force.main (first run, repeat in the same process, repeat in a fresh process, plain "
        "repeat of a --visualize run) or one gekko_common call; distinct = distinct observed traces judged by TLC; non-trivial = the "
        "invocation got past loading (or a direct gekko_common trace)",
        explanation="Extra engine, not one of the 20 properties: the command-line stage `frame force` and tools/force/gekko_common.py.",
        exhaustive=False)
