"""USCS -- the USCS/GSRC benchmark parser (tools/uscs_parser) produces an FPEF netlist that Netlist accepts and
that says the same thing as the .blocks / .nets / .pl source.   (extra engine, evidence id "USCS")

TLC (Uscs / UscsMC) builds small abstract benchmarks by construction actions, renders each in four styles of the
parser's input language into token documents, parses them with the specification's own parser model and checks the
contract as invariants; with EMIT it prints every (benchmark, style, documents).  The harness turns the token
documents into text exactly as the style says (separators, number spellings, comment / empty lines, final
newline), writes the three files under the scratch directory, runs the real entry point
`tools.uscs_parser.uscs_parser.main(prog, [blocks, nets, pl, "--output", out])`, reads the YAML it wrote, loads it
with `frame.netlist.Netlist`, pulls both views back to integers and lets TLC (UscsTrace) judge them against
Expected(bench).  Also: probes OUTSIDE the input language (trailing / leading blanks, blank-only lines, CR LF,
`Key: value`, `(x,y)`, indented comments) for which only "raises or parses correctly" is required; the five
benchmarks under tools/uscs_parser/examples; and seeded random larger benchmarks.
"""
from __future__ import annotations

import json
import os
import random
import time

from ..core import Ctx, MachineryError, REPO, canon, digest
from ..forkpool import prepare_imports, run_cases
from .. import tlc

SEP = {"sp": " ", "tab": "\t", "sp3": "   ", "mix": " \t "}
KEYS = {"area", "aspect_ratio", "rectangles", "fixed", "terminal", "center"}


# ------------------------------------------------------------------------------------------------ rendering
def W(s):
    return {"n": 0, "s": s}


def N(n):
    return {"n": n, "s": ""}


def M(n):
    return {"n": n, "s": "m"}


def K(n):
    return {"n": n, "s": "k"}


BLANK, COMMENT = [], [W("#"), W("comment")]


def render_tokens(b: dict, st: dict) -> dict:
    """Python port of Render of Uscs.tla (used for the benchmarks TLC did not render: random ones and the
    repository examples; for TLC's own cases it is cross-checked against the documents TLC printed)."""
    def pad(section):
        return {0: [], 1: [COMMENT, COMMENT, BLANK] if section == "top" else [BLANK], 2: [COMMENT, BLANK]}.get(st["cmt"], [BLANK])

    def each(ls):
        if st["cmt"] != 2:
            return list(ls)
        out = []
        for ln in ls:
            out += [COMMENT, BLANK, ln]
        return out

    hdr = lambda k, v: [W(k), W(":"), K(v)]                                   # noqa: E731
    ns = sum(1 for blk in b["blocks"] if blk[1] == "soft")
    std = [hdr("NumSoftRectangularBlocks", ns), hdr("NumHardRectilinearBlocks", len(b["blocks"]) - ns), hdr("NumTerminals", len(b["terms"]))]
    bh = {"std": std, "none": []}.get(st["hdr"], [hdr("NumTerminals", 99), [W("Foo"), W(":"), W("bar")], std[1], std[0]])

    def block_line(blk):
        if blk[1] == "soft":
            return [W(blk[0]), W("softrectangular"), N(blk[2]), M(blk[3]), M(blk[4])] + ([W("x"), N(1)] if st["extra"] == 1 else [])
        ln = [W(blk[0]), W("hardrectilinear"), K(len(blk[5]))]
        for v in blk[5]:
            ln += [{"n": v[0], "s": "(,"}, {"n": v[1], "s": ")"}]
        return ln

    blocks = [[W("UCSC"), W("blocks"), W("1.0")]] + pad("top") + each(bh) + pad("mid") \
        + each([block_line(blk) for blk in b["blocks"]]) + pad("mid") + each([[W(t), W("terminal")] for t in b["terms"]]) + pad("end")

    def pin(nm):
        return [W(nm), W("B")] if st["pinx"] == 0 else [W(nm), W("B"), W(":"), W("%48.4"), W("%-50.0")]

    nets = [[W("UCLA"), W("nets"), W("1.0")]] + pad("top")
    if st["hdr"] != "none":
        nets += each([hdr("NumNets", len(b["nets"])), hdr("NumPins", sum(len(n) for n in b["nets"]))])
    nets += pad("mid")
    for net in b["nets"]:
        nets += each([[W("NetDegree"), W(":"), K(len(net))]] + ([COMMENT] if st["cmt"] in (1, 2) else []) + [pin(p) for p in net])
    nets += pad("end")
    pl = [[W("UCLA"), W("pl"), W("1.0")]] + pad("top") + each([[W(e[0]), N(e[1]), N(e[2])] for e in b["pl"]]) + pad("end")
    return {"blocks": blocks, "nets": nets, "pl": pl}


def _num(n: int, fmt: str, milli: bool) -> str:
    if milli:
        return {"int": f"{n / 1000:.3f}", "dot": repr(n / 1000), "exp": f"{n / 1000:.3e}"}[fmt]
    return {"int": str(n), "dot": f"{n}.0", "exp": f"{n:.10e}"}[fmt]


def _word(w: dict, st: dict) -> str:
    if w["s"] == "":
        return _num(w["n"], st["num"], False)
    if w["s"] == "m":
        return _num(w["n"], st["num"], True)
    if w["s"] == "k":
        return str(w["n"])
    if w["s"] == "(,":
        return "(" + _num(w["n"], st["num"], False) + ","
    if w["s"] == ")":
        return _num(w["n"], st["num"], False) + ")"
    return w["s"]


def to_text(lines: list, st: dict) -> str:
    """Token lines -> the text of one file, with the style's separator, number spelling and (probes) whitespace."""
    sep, ws = SEP[st["sep"]], st["ws"]
    out = []
    for k, ln in enumerate(lines):
        words = [_word(w, st) for w in ln]
        if ws == "compactvertex":
            merged = []
            for x in words:
                if merged and merged[-1].startswith("(") and not merged[-1].endswith(")"):
                    merged[-1] += x
                else:
                    merged.append(x)
            words = merged
        if ws == "tightcolon" and len(words) == 3 and words[1] == ":" and words[0] != "NetDegree":
            words = [words[0] + ":", words[2]]
        s = sep.join(words)
        is_comment = bool(ln) and ln[0]["s"] == "#"
        if k > 0 and ln:
            if ws == "trail" and not is_comment:
                s += " "
            if ws == "lead" and not is_comment:
                s = " " + s
            if ws == "leadpin" and not is_comment and len(ln) >= 2 and ln[1]["s"] == "B":   # an indented pin line of .nets
                s = "\t" + s
            if ws == "indentcomment" and is_comment:
                s = "  " + s
        if ws == "wsline" and not ln:
            s = "  "
        out.append(s)
    if ws == "wsline" and not any(not ln for ln in lines):
        out.insert(max(1, len(out) - 1), "  ")
    if ws == "indentcomment" and not any(ln and ln[0]["s"] == "#" for ln in lines):
        out.insert(1, "  # comment")
    eol = "\r\n" if ws == "crlf" else "\n"
    return eol.join(out) + ("" if st["cmt"] == 0 and ws != "crlf" else eol)      # the bare style has no final newline


# ------------------------------------------------------------------------------------------------ cases
NAMES = ["clk", "Clk", "cc_11", "bk10a", "P9", "VDD", "GND", "_x", "B", "terminal", "null", "true", "yes", "on", "y", "N",
         "e1", "x_", "A1b2", "core", "mem0", "mem1", "io_3", "pad", "Z"]


def random_case(rng: random.Random, idx: int) -> dict:
    """Larger benchmarks than TLC enumerates, same shapes, in a random in-language style."""
    pool = list(NAMES) + [f"m{idx}_{k}" for k in range(60)]
    rng.shuffle(pool)
    nb, nt = rng.randint(1, 30), rng.randint(0, 25)
    blocks = []
    for _ in range(nb):
        nm = pool.pop()
        if rng.random() < 0.7:
            lo, hi = rng.randint(100, 1000), rng.randint(1000, 9000)
            if rng.random() < 0.04:
                lo, hi = rng.randint(1100, 1900), rng.randint(2000, 3000)       # FPEF cannot express it
            a1, a2 = (lo, hi) if rng.random() < 0.8 else (hi, lo)
            blocks.append([nm, "soft", rng.choice([rng.randint(1, 99), rng.randint(100, 10 ** 6), rng.randint(10 ** 6, 10 ** 9)]), a1, a2, []])
        else:
            x0, y0 = rng.choice([(0, 0), (rng.randint(0, 9000), rng.randint(0, 9000))])
            w, h = rng.randint(1, 30000), rng.randint(1, 30000)
            vs = [[x0, y0], [x0, y0 + h], [x0 + w, y0 + h], [x0 + w, y0]]
            k = rng.randrange(4)
            vs = vs[k:] + vs[:k]
            if rng.random() < 0.5:
                vs.reverse()
            blocks.append([nm, "hard", 0, 0, 0, vs])
    terms = [pool.pop() for _ in range(nt)]
    names = [blk[0] for blk in blocks] + terms
    nets = []
    for _ in range(rng.randint(0, 40)):
        if len(names) < 2:
            break
        deg = rng.choice([2, 2, 2, 3, 3, 4, 5, 8])
        net = [rng.choice(names) for _ in range(deg)] if rng.random() < 0.15 else rng.sample(names, min(deg, len(names)))
        if rng.random() < 0.02:
            net = net[:1]                                                       # FPEF cannot express a one-pin net
        nets.append(net)
    pl = []
    placed = terms if rng.random() < 0.6 else [t for t in terms if rng.random() < 0.5]
    for t in placed:
        pl.append([t, rng.randint(0, 40000), rng.randint(0, 40000)])
    if rng.random() < 0.2:
        pl.append([pool.pop(), rng.randint(0, 40000), rng.randint(0, 40000)])   # a name only the .pl file knows
    if pl and rng.random() < 0.1:
        pl.append([pl[0][0], rng.randint(0, 40000), rng.randint(0, 40000)])     # listed twice: the later line wins
    st = {"sep": rng.choice(list(SEP)), "cmt": rng.randrange(4), "hdr": rng.choice(["std", "none", "mix"]),
          "extra": rng.randrange(2), "pinx": rng.randrange(2), "num": rng.choice(["int", "dot", "exp"]), "ws": "clean"}
    bench = {"blocks": blocks, "terms": terms, "nets": nets, "pl": pl}
    return {"src": "rnd", "bench": bench, "style": st, "docs": render_tokens(bench, st)}


def example_cases() -> list[dict]:
    """The benchmarks shipped with the tool.  The abstract benchmark is read off the files by a line-by-line reader
    for their strict layout (name keyword numbers); the files themselves are what the parser gets."""
    out = []
    exdir = os.path.join(REPO, "tools", "uscs_parser", "examples")
    for base in sorted({f.rsplit(".", 1)[0] for f in os.listdir(exdir) if f.endswith(".blocks")}):
        paths = {k: os.path.join(exdir, f"{base}.{k}") for k in ("blocks", "nets", "pl")}
        if not all(os.path.exists(p) for p in paths.values()):
            continue
        content = lambda p: [ln.split() for ln in open(p).read().split("\n")[1:] if ln and ln[0] != "#"]   # noqa: E731
        blocks, terms, seen = [], [], set()
        for w in content(paths["blocks"]):
            if len(w) >= 5 and w[1] == "softrectangular" and w[0] not in seen:
                blocks.append([w[0], "soft", int(w[2]), int(round(float(w[3]) * 1000)), int(round(float(w[4]) * 1000)), []])
                seen.add(w[0])
            elif len(w) == 2 and w[1] == "terminal" and w[0] not in seen:      # (ami33 declares GND twice: one module)
                terms.append(w[0])
                seen.add(w[0])
        nets, cur, need = [], [], 0
        for w in content(paths["nets"]):
            if w[0] == "NetDegree":
                need, cur = int(w[2]), []
                nets.append(cur)
            elif need > 0:
                cur.append(w[0])
                need -= 1
        pl = [[w[0], int(w[1]), int(w[2])] for w in content(paths["pl"])]
        out.append({"src": "example", "name": base, "files": paths, "style": {"ws": "clean"},
                    "bench": {"blocks": blocks, "terms": terms, "nets": nets, "pl": pl}})
    return out


# ------------------------------------------------------------------------------------------------ real code
def _int(v, scale=1):
    x = float(v) * scale
    k = round(x)
    if abs(x - k) > 1e-6 * max(1.0, abs(x)):
        raise ValueError(f"not an integer on the lattice: {v!r}")
    return int(k)


def run_case(case: dict) -> dict:
    """Writes the three files, runs the real parser and Netlist (in a forked child) -> observation."""
    import shutil
    import tempfile
    from frame.geometry.geometry import Rectangle
    from frame.netlist.netlist import Netlist
    from frame.utils.utils import read_yaml
    import tools.uscs_parser.uscs_parser as up

    d = tempfile.mkdtemp(prefix="uscs-", dir=os.environ.get("TMPDIR"))
    try:
        if "files" in case:
            paths = case["files"]
        else:
            paths = {}
            for k in ("blocks", "nets", "pl"):
                paths[k] = os.path.join(d, f"bench.{k}")
                st = case["style"]
                if st["ws"] != "clean" and st.get("wsfile", "all") not in ("all", k):
                    st = {**st, "ws": "clean"}                        # the probe touches one file, the others are clean
                with open(paths[k], "w", newline="") as f:
                    f.write(to_text(case["docs"][k], st))
        out = os.path.join(d, "out.yaml")
        obs = {"raised": 0, "exc": "", "mods": [], "nets": [], "extra": 0, "accepted": 0, "lmods": [], "lnets": [], "why": ""}
        try:
            up.main("frame uscs_parser", [paths["blocks"], paths["nets"], paths["pl"], "--output", out])
        except Exception as e:
            obs["raised"], obs["exc"] = 1, f"{type(e).__name__}: {e}"[:160]
            return obs
        tree = read_yaml(out)
        try:
            for name, md in (tree.get("Modules") or {}).items():
                ar = md.get("aspect_ratio", [0, 0])
                c = md.get("center")
                obs["mods"].append({
                    "name": str(name), "area": _int(md["area"]) if "area" in md else 0,
                    "lo": _int(ar[0], 1000), "hi": _int(ar[1], 1000),
                    "rects": [[_int(r[0], 2), _int(r[1], 2), _int(r[2]), _int(r[3])] for r in md.get("rectangles", [])],
                    "term": int(bool(md.get("terminal", False))), "fixed": int(bool(md.get("fixed", False))),
                    "hasc": int(c is not None), "c2": [_int(c[0], 2), _int(c[1], 2)] if c is not None else [0, 0]})
                obs["extra"] += len(set(md) - KEYS)
            obs["nets"] = [[str(p) for p in net] for net in (tree.get("Nets") or [])]
        except (ValueError, TypeError, KeyError, IndexError) as e:
            obs["why"] = f"unreadable parser output: {e}"[:160]
            obs["off"] = 1
            return obs
        Rectangle.undefine_epsilon()
        try:
            nl = Netlist(out)
        except Exception as e:
            obs["why"] = f"{type(e).__name__}: {e}"[:160]
            return obs
        obs["accepted"] = 1
        for m in nl.modules:
            ar, c = m.aspect_ratio, m.center
            obs["lmods"].append({
                "name": m.name, "term": int(m.is_terminal), "fixed": int(m.is_fixed), "hard": int(m.is_hard), "area": _int(m.area()),
                "lo": _int(ar.min_wh, 1000) if ar is not None else 0, "hi": _int(ar.max_wh, 1000) if ar is not None else 0,
                "rects": [[_int(r.center.x, 2), _int(r.center.y, 2), _int(r.shape.w), _int(r.shape.h)] for r in m.rectangles],
                "hasc": int(c is not None), "c2": [_int(c.x, 2), _int(c.y, 2)] if c is not None else [0, 0]})
        obs["lnets"] = [[mm.name for mm in e.modules] + ([] if e.weight == 1 else [f"*weight {e.weight}*"]) for e in nl.edges]
        return obs
    finally:
        shutil.rmtree(d, ignore_errors=True)


# ------------------------------------------------------------------------------------------------ decision
def decide(ctx: Ctx, cases: list[dict]):
    prepare_imports()
    import tools.uscs_parser.uscs_parser  # noqa: F401  (imported in the parent, used only in the children)
    import frame.netlist.netlist  # noqa: F401
    t0 = time.time()
    results = run_cases(run_case, cases, nproc=16, case_timeout=120)
    ctx.extra["real_runs_wall_s"] = round(time.time() - t0, 1)
    st = ctx.extra.setdefault("runs", {"total": 0, "in_language": 0, "probes": 0, "parser_raised": 0, "netlist_accepted": 0,
                                       "netlist_rejected": 0, "probes_raised": 0, "probes_parsed_correctly": 0})
    traces, owner = {}, {}
    for c, (status, obs) in zip(cases, results):
        st["total"] += 1
        probe = int(c["style"]["ws"] != "clean")
        st["probes" if probe else "in_language"] += 1
        feat = {"src": c["src"], "ws": c["style"]["ws"], "wsfile": c["style"].get("wsfile", "")}
        if status != "ok":
            ctx.count()
            ctx.violation("returns", _small(c), {"status": status}, feat)
            continue
        if obs.get("off"):
            ctx.count()
            ctx.violation("off_lattice", _small(c), {"why": obs["why"]}, feat)
            continue
        st["parser_raised"] += obs["raised"]
        st["netlist_accepted"] += obs["accepted"]
        st["netlist_rejected"] += int(not obs["raised"] and not obs["accepted"])
        t = {"bench": c["bench"], "probe": probe, "ws": c["style"]["ws"] + "/" + c["style"].get("wsfile", ""), "obs": {k: obs[k] for k in ("raised", "mods", "nets", "extra", "accepted", "lmods", "lnets")}}
        key = digest(t)
        if key not in traces:
            t["id"] = key
            traces[key] = t
            owner[key] = (c, obs)
    verdicts = tlc.validate_traces(ctx, "UscsTrace", "UscsTrace", list(traces.values()), chunk=2500)
    for key, v in verdicts.items():
        t, (c, obs) = traces[key], owner[key]
        b = t["bench"]
        if t["probe"]:
            st["probes_raised" if obs["raised"] else "probes_parsed_correctly"] += int(obs["raised"] or not v["fails"])
        ctx.count(key, nontrivial=len(b["blocks"]) + len(b["terms"]) >= 2 and (bool(b["nets"]) or bool(b["pl"])), n=1)
        for (_l, clause) in v["fails"]:
            feat = {"src": c["src"], "ws": c["style"]["ws"], "wsfile": c["style"].get("wsfile", ""), "clause": clause}
            if t["probe"]:
                # which parser let the disturbed line through in silence -- decided on the SIGNATURE of the two known
                # defects in the observation, so that anything else seen through a probe keeps family "other":
                #   blocks_unrecognised_line: .blocks disturbed, no exception, modules of the source are missing and
                #                             nothing else was invented (the tail of the file was dropped)
                #   nets_indented_pin:        indented pin line, no exception, a net carries the empty name
                want = [blk[0] for blk in b["blocks"]] + list(b["terms"])
                want += [e[0] for e in b["pl"] if e[0] not in want]
                got = [m["name"] for m in obs["mods"]]
                feat["family"] = "other"
                if not obs["raised"] and c["style"]["ws"] == "leadpin" and any("" in net for net in obs["nets"]):
                    feat["family"] = "nets_indented_pin"
                elif (not obs["raised"] and c["style"]["ws"] != "leadpin" and c["style"].get("wsfile") in ("blocks", "all")
                      and set(got) <= set(want) and got != want):
                    feat["family"] = "blocks_unrecognised_line"
            if clause == "returns":
                feat["exc"] = obs["exc"].split(":")[0]
            ctx.violation(clause, _small(c), {"parser": {"raised": obs["raised"], "exc": obs["exc"], "modules": [m["name"] for m in obs["mods"]][:12],
                                                         "nets": obs["nets"][:6]}, "netlist": {"accepted": obs["accepted"], "why": obs["why"]}}, feat)
        for (_l, clause) in v["drift"]:
            ctx.model_drift(f"{clause} ({'probe ' + c['style']['ws'] if t['probe'] else 'in-language'})")
    shown = set()
    for t in traces.values():
        c = owner[t["id"]][0]
        tag = (c["src"], c["style"]["ws"] != "clean")
        if tag not in shown and len(shown) < 5 and len(t["bench"]["blocks"]) + len(t["bench"]["terms"]) <= 6:
            shown.add(tag)
            text = {k: to_text(c["docs"][k], c["style"]) for k in ("blocks", "nets", "pl")} if "docs" in c else c.get("name")
            ctx.sample({"bench": t["bench"], "style": c["style"], "text": text, "obs": t["obs"]})


def _small(c: dict) -> dict:
    """The replayable case (the token documents are re-rendered on replay)."""
    return {k: c[k] for k in ("src", "bench", "style", "name", "files") if k in c}


def _restore(c: dict) -> dict:
    if "docs" not in c and "files" not in c:
        c = dict(c)
        c["docs"] = render_tokens(c["bench"], c["style"])
    return c


def run(ctx: Ctx) -> int:
    if ctx.replay:
        rec = json.load(open(ctx.replay))
        decide(ctx, [_restore(rec["case"])])
        return ctx.finish("model_checking", "replay of one recorded case")
    tier = ctx.tier
    quick = tier == "quick"
    tlc.model_check(ctx, "UscsMC", f"Uscs_mc_{tier}", vacuity_ignore=("EmitCase",))
    rng = random.Random(ctx.seed * 1000003 + 77)
    gen = tlc.generate(ctx, "UscsMC", f"Uscs_gen_{tier}")
    probes = tlc.generate(ctx, "UscsMC", f"Uscs_probe_{tier}")
    ctx.extra["cases_from_tlc"] = {"in_language": len(gen), "probes": len(probes)}
    gen.sort(key=canon)
    probes.sort(key=canon)
    # the harness's renderer (used for random benchmarks) must agree with the specification's Render on TLC's own cases
    for c in rng.sample(gen, min(len(gen), 400)) + rng.sample(probes, min(len(probes), 100)):
        if render_tokens(c["bench"], c["style"]) != c["docs"]:
            raise MachineryError(f"harness renderer differs from Render of Uscs.tla on {canon(c['bench'])[:200]} / {c['style']}")
    gen = rng.sample(gen, min(len(gen), 2200 if quick else 40000))
    probes = rng.sample(probes, min(len(probes), 700 if quick else 12000))
    # a probe disturbs ONE of the three files (or all of them): a loud failure in one file must not hide a silent one
    targets = ["blocks", "nets", "pl", "all"]
    for i, c in enumerate(probes):
        c["style"] = {**c["style"], "wsfile": {"compactvertex": "blocks", "leadpin": "nets"}.get(c["style"]["ws"], targets[i % 4])}
    cases = [{"src": "tlc", **c} for c in gen + probes]
    nrnd = 250 if quick else 3000
    cases += [random_case(rng, i) for i in range(nrnd)]
    # random benchmarks as probes too
    for i in range(nrnd // 4):
        c = random_case(rng, 100000 + i)
        c["style"]["ws"] = rng.choice(["trail", "lead", "wsline", "crlf", "tightcolon", "compactvertex", "indentcomment", "leadpin"])
        c["style"]["wsfile"] = targets[i % 4] if c["style"]["ws"] != "leadpin" else "nets"
        cases.append(c)
    ex = example_cases()
    cases += ex
    ctx.extra["cases_run"] = {"tlc_in_language": len(gen), "tlc_probes": len(probes), "random": nrnd, "random_probes": nrnd // 4, "examples": len(ex)}
    decide(ctx, cases)
    ctx.assumptions += [
        "the input language is what the code accepts (documented in the header of specs/Uscs.tla); text is rendered from "
        "the specification's token documents in 4 styles (TLC) or a random style (random benchmarks)",
        "numbers: integer areas and coordinates (spelled 7 / 7.0 / 7.0000000000e+00), aspect ratios in thousandths; "
        "names are FPEF identifiers (the pool includes null, true, yes, on, terminal, B)",
        "hard blocks are quads (the parser rejects any other vertex count); placement lines are generated for terminals "
        "and for names only the .pl file knows (as in the repository's examples), not for blocks",
        "outside the language only 'the parser raises or its output is still right' is required (clause no_silent_drop)",
    ]
    return ctx.finish(
        "model_checking",
        "one evaluation = one benchmark text run through uscs_parser.main + Netlist and judged by TLC against "
        "Expected(bench); distinct non-trivial = distinct (benchmark, observation) pairs with >= 2 modules and a net or a "
        "placement line",
        exhaustive=False)
