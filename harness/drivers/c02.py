"""C02 -- Refining an allocation conserves tiling, module area and centroid.

TLC (Alloc/AllocMC) explores every composition (length <= 2) of refine(t, levels) / uniform_refinement_depth /
griddify from every decorated guillotine layout of the bounded universe, with conservation as an ACTION property,
and emits the behaviours; each is replayed on a real Allocation under eight embeddings; the cells, area(m) and
center(m) observed after every call are judged by TLC (AllocTrace) -- same tiling, same areas, same centroids,
inheritance, fixed cells uncut, the call succeeded.  Random larger allocations (holes, 3 modules, decimal
ratios, empty maps, fixed cells, loops) follow the same path.
"""
from __future__ import annotations

import json

from ..core import Ctx
from ..lattice import ALL
from .. import tlc
from .alloc_common import C02_CLAUSES, decide, gen_cases

CLAUSES = C02_CLAUSES
SALT = 2
WHAT = "C02"
SUFFIX = {"quick": ["quick"], "thorough": ["thorough_a", "thorough_b"]}


def run(ctx: Ctx, clauses=None, salt=None) -> int:
    clauses = clauses or CLAUSES
    if ctx.replay:
        rec = json.load(open(ctx.replay))["case"]
        case = {"cells": rec["cells"], "den": rec["den"], "nm": rec["nm"], "ops": rec["ops"],
                "embs": rec.get("embeddings", ALL), "predict": 0}
        decide(ctx, [case], clauses)
        return ctx.finish("model_checking", "replay of one recorded case")
    for sfx in SUFFIX[ctx.tier]:
        tlc.model_check(ctx, "AllocMC", f"Alloc_mc_{sfx}", vacuity_ignore=("Emit",))
    cases = gen_cases(ctx, ctx.tier, salt or SALT)
    decide(ctx, cases, clauses)
    ctx.extra["embeddings"] = ALL + ["micro"]
    ctx.extra["clauses"] = sorted(clauses)
    ctx.assumptions += [
        "float dimension sampled by 8 embeddings (incl. a non-zero origin)",
        "operation sequences are bounded so that every halving stays on the integer micro-lattice",
    ]
    return ctx.finish(
        "model_checking",
        "TLC enumerates decorated guillotine layouts (<=2 cells on 2x2 quick, <=3 on 3x3 thorough; 4 occupancy maps incl. empty "
        "and zero entries, depths 0..1, <=1 fixed cell) x all operation sequences of length 2; random allocations up to 8 cells; "
        "evaluation = one (behaviour, embedding); distinct = distinct pulled-back behaviours judged by TLC; non-trivial = some "
        "call produced more cells than it started from",
        exhaustive=False)
