"""C11 -- Die refinement keeps the tiling, reaches the count and bounds the aspect ratio.

TLC (Die/DieMC) model-checks split_refinable_regions as a state machine (phase 1, one action per phase-2
iteration) and initial_grid on every valid description of the bounded universe, and emits the descriptions;
the harness applies requests (r = p/q, n) / grids -- singly and in sequences of two -- to real Die objects
under seven embeddings; the refinable / blockage / fixed lists observed after every call are judged by TLC
(DieTrace: any result meeting the post-condition is accepted).
"""
from __future__ import annotations

import json
import random

from ..core import Ctx
from ..lattice import ORIGIN0 as _O0

# seven origin-0 embeddings plus two magnitudes: 1e-6 and 1e9 units (absolute tolerances and slacks show there)
ORIGIN0 = _O0 + ["micro", "huge", "mega"]
from .. import tlc
from .c01 import to_case, decide
from .die_common import random_description

RATIOS = [(71, 50), (3, 2), (7, 4), (2, 1), (3, 1)]


def ops_for(rng: random.Random, c, nmax: int) -> list[list[dict]]:
    """request sequences for one valid description"""
    seqs = []
    empty = len(c["regs"]) == 0
    for _ in range(3):
        p, q = rng.choice(RATIOS)
        n = rng.randint(1, nmax)
        seqs.append([{"op": "split", "p": p, "q": q, "n": n, "check_model": int(n <= 6)}])
    p, q = rng.choice(RATIOS); p2, q2 = rng.choice(RATIOS)
    n = rng.randint(1, nmax // 2)
    seqs.append([{"op": "split", "p": p, "q": q, "n": n, "check_model": int(n <= 6)},
                 {"op": "split", "p": p2, "q": q2, "n": n + rng.randint(1, nmax // 2), "check_model": 0}])
    # a second request that the COUNT already satisfies and only the aspect-ratio limit does not (a tighter limit, fewer regions)
    p, q = rng.choice(RATIOS[2:]); p2, q2 = rng.choice(RATIOS[:2])
    n = rng.randint(2, max(2, nmax // 2))
    seqs.append([{"op": "split", "p": p, "q": q, "n": n, "check_model": int(n <= 6)},
                 {"op": "split", "p": p2, "q": q2, "n": rng.randint(1, n), "check_model": 0}])
    # the die used again after a request it refuses (limit below sqrt 2, or no region asked for): seeded C11-10
    p, q = rng.choice(RATIOS)
    bad = rng.choice([{"op": "refused", "p": 6, "q": 5, "n": rng.randint(1, 6)}, {"op": "refused", "p": p, "q": q, "n": 0}])
    n = rng.randint(2, nmax)
    seqs.append([bad, {"op": "split", "p": p, "q": q, "n": n, "check_model": int(n <= 6)}])
    if empty:
        for _ in range(3):
            nr, nc = rng.choice([1, 2, 4, 8]), rng.choice([1, 2, 4, 8])   # "all grid shapes": the one-cell grid too
            seqs.append([{"op": "grid", "nr": nr, "nc": nc},
                         {"op": "split", "p": 3, "q": 2, "n": nr * nc + rng.randint(0, 5), "check_model": 0}])
        # request histories on one die object: a request that changes nothing (a loose limit, one region), then a grid whose
        # cells are elongated, then a request whose count the grid already meets: only the limit makes it cut (seeded C11-7:
        # a summary of the regions remembered from an earlier request must not answer a later one)
        for _ in range(2):
            nr, nc = rng.choice([(1, 4), (4, 1), (1, 8), (8, 1), (2, 8), (8, 2)])
            p2, q2 = rng.choice(RATIOS)
            seqs.append([{"op": "split", "p": 3, "q": 1, "n": 1, "check_model": 0},
                         {"op": "grid", "nr": nr, "nc": nc},
                         {"op": "split", "p": p2, "q": q2, "n": rng.randint(1, nr * nc), "check_model": 0}])
            seqs.append([{"op": "grid", "nr": nr, "nc": nc},
                         {"op": "split", "p": p2, "q": q2, "n": rng.randint(1, nr * nc), "check_model": 0}])
    return seqs


def near_limit_cases(rng: random.Random) -> list[dict]:
    """Empty dies whose aspect ratio is just above / just below each limit r = p/q (by about 5e-4), and empty dies that are
    slightly taller than wide (1 < h/w < 2/r: their halves exceed the limit and must be split again) -- both orientations."""
    out = []
    for (p, q) in RATIOS:
        k = 8 * (-(-2000 // q))                # multiple of 8 (three exact halvings), q*k >= 16000
        for d in (8, -8):
            lng, sht = p * k + d, q * k        # lng/sht = r + d/(q k), |d/(q k)| <= 5e-4
            for (w, h) in ((lng, sht), (sht, lng)):
                for n in (1, 2):
                    out.append({"mregs": [], "mdw": w, "mdh": h, "embs": list(ORIGIN0),
                                "ops": [{"op": "split", "p": p, "q": q, "n": n, "check_model": 1}]})
    for (p, q) in RATIOS:
        for a in range(4, 10):
            for b in range(a, 10):
                for n in (2, 3, 5):
                    w, h = (32 * a, 32 * b) if rng.random() < 0.5 else (32 * b, 32 * a)
                    out.append({"mregs": [], "mdw": w, "mdh": h, "embs": list(ORIGIN0),
                                "ops": [{"op": "split", "p": p, "q": q, "n": n, "check_model": 1}]})
    # initial grids on empty dies, many per worker process: the first call in a process is not special
    for _ in range(64):
        a, b = rng.randint(2, 9), rng.randint(2, 9)
        nr, nc = rng.choice([1, 2, 4, 8]), rng.choice([1, 2, 4, 8])
        ops = [{"op": "grid", "nr": nr, "nc": nc}]
        u = rng.random()
        if u < 0.4:
            ops.append({"op": "split", "p": 3, "q": 2, "n": nr * nc + rng.randint(1, 4), "check_model": 0})
        elif u < 0.8:   # the count is already met: only the limit asks for cuts; half of them after a request that changed nothing
            p2, q2 = rng.choice(RATIOS)
            ops.append({"op": "split", "p": p2, "q": q2, "n": rng.randint(1, nr * nc), "check_model": 0})
            if u < 0.6 and max(a, b) <= 4 * min(a, b):
                ops.insert(0, {"op": "split", "p": 4, "q": 1, "n": 1, "check_model": 0})
        out.append({"mregs": [], "mdw": 32 * a, "mdh": 32 * b, "embs": list(ORIGIN0), "ops": ops})
    return out


def one_cell_grids(rng: random.Random) -> list[dict]:
    """the one-cell grid (always part of the run, in both tiers): one region equal to the die, then an ordinary request"""
    out = []
    for (a, b) in ((4, 4), (3, 7), (9, 2)):
        p, q = rng.choice(RATIOS)
        out.append({"mregs": [], "mdw": 32 * a, "mdh": 32 * b, "embs": list(ORIGIN0),
                    "ops": [{"op": "grid", "nr": 1, "nc": 1}, {"op": "split", "p": p, "q": q, "n": rng.randint(1, 6), "check_model": 0}]})
    return out


def has_refinable(c) -> bool:
    """some cell of the die is not covered by a blockage or a fixed rectangle"""
    cov = set()
    for t in c["regs"]:
        if t[4] in ("#", "F"):
            for i in range(t[0], t[2]):
                for j in range(t[1], t[3]):
                    cov.add((i, j))
    return len(cov) < c["dw"] * c["dh"]


def run(ctx: Ctx) -> int:
    if ctx.replay:
        rec = json.load(open(ctx.replay))["case"]
        ops = [{k: v for k, v in e.items() if k in ("op", "p", "q", "n", "nr", "nc", "check_model")} for e in rec["ops"]]
        case = {"mregs": rec["regs"], "mdw": rec["dw"], "mdh": rec["dh"], "embs": rec.get("embeddings", ORIGIN0), "ops": ops}
        decide(ctx, [case])
        return ctx.finish("model_checking", "replay of one recorded case")
    tier = ctx.tier
    tlc.model_check(ctx, "DieMC", f"Die_mc_split_{tier}", vacuity_ignore=("Emit",))
    gen = [c for c in tlc.generate(ctx, "DieMC", f"Die_gen_split_{tier}") if c["valid"] == 1 and has_refinable(c)]
    rng = random.Random(ctx.seed * 1000003 + 11)
    if tier == "quick":
        rng.shuffle(gen)
        gen = gen[:250]
    cases = []
    for c in gen:
        for ops in ops_for(rng, c, 12 if tier == "quick" else 24):
            cases.append(to_case(c, ops=ops))
    nrand = 150 if tier == "quick" else 2500
    k = 0
    while k < nrand:
        c = random_description(rng, valid_bias=1.0)
        if c["valid"] != 1 or not has_refinable(c):
            continue
        k += 1
        ops = rng.choice(ops_for(rng, c, 30))
        cases.append(to_case(c, ops=ops))
    nl = near_limit_cases(rng)
    if tier == "quick":
        rng.shuffle(nl)
        nl = nl[:220]
    cases += nl + one_cell_grids(rng)
    ctx.extra["descriptions"] = len(gen) + nrand
    ctx.extra["near_limit_and_empty_dies"] = len(nl)
    decide(ctx, cases)
    ctx.extra["embeddings"] = ORIGIN0
    ctx.extra["aspect_ratio_limits"] = [f"{p}/{q}" for p, q in RATIOS]
    ctx.assumptions += [
        "dies without any refinable region are outside the universe (no implementation can deliver n >= 1 regions there)",
        "float dimension sampled by 7 origin-0 embeddings",
        "lattice has 32 micro-units per step: requests are bounded so that no region is halved below one micro-unit",
    ]
    return ctx.finish(
        "model_checking",
        "valid descriptions enumerated by TLC (<=1 region quick / <=2 thorough on 3x3) and random guillotine dies up to 12x12; "
        "per description several requests (r in {1.42,1.5,1.75,2,3}, n <= 30) and two-step sequences; evaluation = one "
        "(description, embedding) behaviour; distinct = distinct pulled-back behaviours judged by TLC; non-trivial = accepted "
        "die with >= 2 ground regions",
        exhaustive=False)
