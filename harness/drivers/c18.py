"""C18 -- Rectangle operations agree with plane geometry.

TLC (GeometryOps) enumerates operands x operations x arguments, checks the laws as invariants and emits the
cases; every case runs on real frame.geometry.Rectangle objects under eight float embeddings; observed
results are pulled back to the lattice and judged by TLC (GeometryTrace: Holds = property clauses,
res' = model conformance).  A seeded random driver adds larger coordinates on the same path.
"""
from __future__ import annotations

import random

from ..core import Ctx, canon, digest
from ..forkpool import prepare_imports, run_cases
from ..lattice import ALL, EMBEDDINGS, EXACT, OffLattice

EMBS = ALL + ["micro"]
from .. import tlc

K = 24
BIT_OPS = {"overlap", "is_inside", "touches", "eq", "x_cuttable", "y_cuttable", "point_inside"}
LIST_OPS = {"mul", "duplicate", "split", "split_horizontal", "split_vertical", "rectangle_grid"}


def _mk(emb, t):
    from frame.geometry.geometry import Rectangle, Point, Shape
    cx, cy, w, h = emb.rect(t)
    kw = {"center": Point(cx, cy), "shape": Shape(w, h), "fixed": bool(t[5]), "hard": bool(t[6])}
    if t[4] != "g":
        kw["region"] = "reg_" + t[4]
    return Rectangle(**kw)


def _tag(emb, r):
    reg = "g" if r.region == "_" else r.region.replace("reg_", "")
    return emb.back_rectangle(r) + [reg, int(bool(r.fixed)), int(bool(r.hard))]


def _apply(emb, ra, rb, op, arg):
    from frame.geometry.geometry import Point, Rectangle
    if op == "area_overlap":
        v = ra.area_overlap(rb)
        q = emb.back_area_f(v)
        k = round(q)
        if abs(q - k) > 1e-6 * max(1.0, abs(q)):
            raise OffLattice(f"area {v!r}")
        return k
    if op == "overlap":
        return int(bool(ra.overlap(rb)))
    if op == "mul":
        v = ra * rb
        return [] if v is None else [_tag(emb, v)]
    if op == "is_inside":
        return int(bool(ra.is_inside(rb)))
    if op == "touches":
        return int(bool(ra.touches(rb)))
    if op == "touches_tol":
        # a design with a coarse distance tolerance (arg[0] half lattice units), set through the public API and put back
        from fractions import Fraction as F
        saved = (Rectangle.distance_epsilon(), Rectangle.area_epsilon())
        Rectangle.set_epsilon(float(emb.length(F(arg[0], 2))), saved[1])
        try:
            return int(bool(ra.touches(rb)))
        finally:
            Rectangle.set_epsilon(*saved)
    if op == "is_inside_bb":
        a, b = ra.bounding_box, rb.bounding_box
        return [int(bool(ra.is_inside(rb))),
                int(a.ll.x >= b.ll.x and a.ll.y >= b.ll.y and a.ur.x <= b.ur.x and a.ur.y <= b.ur.y)]
    if op == "eq":
        return int(bool(ra == rb))
    if op == "duplicate":
        return [_tag(emb, ra.duplicate())]
    if op == "split":
        return [_tag(emb, p) for p in ra.split()]
    if op in ("split_horizontal", "split_vertical"):
        f = getattr(ra, op)
        ps = f() if arg[0] < 0 else f(emb.coord(arg[0]))
        return [_tag(emb, p) for p in ps]
    if op == "rectangle_grid":
        return [_tag(emb, p) for p in ra.rectangle_grid(arg[0], arg[1])]
    if op in ("x_cuttable", "y_cuttable"):
        if len(arg) > 3 and arg[3]:       # the documented default ratio (1%): the argument is left out
            return int(bool(getattr(ra, op)(emb.coord(arg[0]))))
        return int(bool(getattr(ra, op)(emb.coord(arg[0]), arg[1] / arg[2])))
    if op == "point_inside":
        from fractions import Fraction as F
        return int(bool(ra.point_inside(Point(emb.coord(F(arg[0], 2)), emb.coord(F(arg[1], 2))))))
    raise ValueError(op)


def run_case(case):
    """-> {embedding: [res per event]}; res is a lattice value, or {"exc": ..} / {"off": ..}.
    kind "live": the two Rectangle objects are created once and kept across the events; the pseudo-operation `move`
    shifts `a` IN PLACE (r.center.x += dx, as Module.recenter_rectangles does), every later event sees the same object."""
    from frame.geometry.geometry import Rectangle
    out = {}
    live = case["kind"] == "live"
    for en in case["embs"]:
        emb = EMBEDDINGS[en]
        Rectangle.undefine_epsilon()
        Rectangle.set_epsilon(1e-11 * float(emb.step) * case["extent"])
        obs = []
        if live:
            ra, rb = _mk(emb, case["a"]), _mk(emb, case["b"])
        for ev in case["events"]:
            if not live:
                ra = _mk(emb, case["a"])
                rb = _mk(emb, case["b"]) if case["kind"] == "pair" else None
            try:
                if ev["op"] == "move":
                    ra.center.x += emb.length(ev["arg"][0])
                    ra.center.y += emb.length(ev["arg"][1])
                    obs.append([])
                else:
                    obs.append(_apply(emb, ra, rb, ev["op"], ev["arg"]))
            except OffLattice as e:
                obs.append({"off": str(e)})
            except Exception as e:  # the operation is defined on this input, so raising is a failure
                obs.append({"exc": f"{type(e).__name__}: {e}"})
        out[en] = obs
    return out


def live_cases(rng: random.Random, n: int) -> list[dict]:
    """One live pair of rectangles queried, moved in place, and queried again (stale derived state shows here)."""
    cases = []
    M = 12 * K
    pair_ops = ("area_overlap", "overlap", "mul", "is_inside", "touches")
    for _ in range(n):
        x1, y1 = K * rng.randint(2, 6), K * rng.randint(2, 6)
        a = [x1, y1, x1 + K * rng.randint(1, 4), y1 + K * rng.randint(1, 4), "g", rng.randint(0, 1), rng.randint(0, 1)]
        bx, by = K * rng.randint(1, 7), K * rng.randint(1, 7)
        b = [bx, by, bx + K * rng.randint(1, 4), by + K * rng.randint(1, 4), rng.choice("gg" "r"), 0, 0]
        ev = [{"op": o, "arg": []} for o in pair_ops]
        for _j in range(rng.randint(1, 3)):
            dx, dy = K * rng.randint(-2, 4), K * rng.randint(-2, 4)
            ev.append({"op": "move", "arg": [dx, dy]})
            ev += [{"op": o, "arg": []} for o in rng.sample(pair_ops, 4)]
            ev.append({"op": "point_inside", "arg": [2 * (x1 + dx) + K, 2 * (y1 + dy) + K]})
        # keep the object in the non-negative quadrant whatever the moves add up to
        tot_x = sum(e["arg"][0] for e in ev if e["op"] == "move")
        tot_y = sum(e["arg"][1] for e in ev if e["op"] == "move")
        if x1 + min(0, tot_x) - 4 * K < 0 or y1 + min(0, tot_y) - 4 * K < 0:
            a[0] += 6 * K; a[2] += 6 * K; a[1] += 6 * K; a[3] += 6 * K
        cases.append({"kind": "live", "a": a, "b": b, "events": ev})
    return cases


def random_cases(rng: random.Random, n: int) -> list[dict]:
    """Larger / irregular coordinates than TLC enumerates; only operations whose preconditions hold."""
    cases = []
    M = 60 * K
    def rrect():
        x1, y1 = rng.randrange(0, M - 2, 2) , rng.randrange(0, M - 2, 2)
        x2, y2 = x1 + 2 * rng.randint(1, (M - x1) // 2), y1 + 2 * rng.randint(1, (M - y1) // 2)
        return [x1, y1, x2, y2]
    for i in range(n):
        if i % 2 == 0:
            a = rrect()
            # b derived from a so that touching / nested / crossing configurations are frequent
            b = rrect()
            mode = rng.randrange(7)
            if mode >= 5:
                # diagonal neighbours: b beyond a corner of a with small gaps (0..4 units) on BOTH axes
                gx, gy = rng.randint(0, 4), rng.randint(0, 4)
                if mode == 5:
                    b = [a[2] + gx, a[3] + gy, a[2] + gx + 2 * rng.randint(1, 9), a[3] + gy + 2 * rng.randint(1, 9)]
                else:   # nested, flush with one or two sides of a
                    if a[2] - a[0] > 6 and a[3] - a[1] > 6:
                        b, a = list(a), [a[2] - 2 * rng.randint(1, 2), a[1] + 2 * rng.randint(0, 1), a[2], a[3] - 2 * rng.randint(0, 1)]
            elif mode == 0:
                b = [a[2], rng.randrange(0, M - 2, 2), a[2] + 2 * rng.randint(1, 40), 0]; b[3] = b[1] + 2 * rng.randint(1, 40)
            elif mode == 1:
                b = [a[0], a[1], a[2], a[3]]
            elif mode == 2 and a[2] - a[0] > 4 and a[3] - a[1] > 4:
                b = [a[0] + 2, a[1] + 2, a[2] - 2, a[3] - 2]
            elif mode == 3:
                b = [a[2], a[3], a[2] + 2 * rng.randint(1, 9), a[3] + 2 * rng.randint(1, 9)]
            ta = a + ["g", rng.randint(0, 1), rng.randint(0, 1)]
            tb = b + [rng.choice("gr"), 0, 0]
            ev = [{"op": o, "arg": []} for o in ("area_overlap", "overlap", "mul", "is_inside", "touches", "eq", "is_inside_bb")]
            ev += [{"op": "touches_tol", "arg": [e2]} for e2 in rng.sample([1, 3, 5, 7, 9], 2)]
            cases.append({"kind": "pair", "a": ta, "b": tb, "events": ev})
        else:
            a = rrect()
            # make dimensions divisible so halving / gridding are defined
            nr, nc = rng.randint(1, 6), rng.randint(1, 6)
            w = 2 * nc * rng.randint(1, 20); h = 2 * nr * rng.randint(1, 20)
            a = [a[0], a[1], a[0] + w, a[1] + h]
            ta = a + [rng.choice("gr"), rng.randint(0, 1), rng.randint(0, 1)]
            ev = [{"op": "duplicate", "arg": []}, {"op": "rectangle_grid", "arg": [nr, nc]}]
            if (h > w and h % 2 == 0) or (h <= w and w % 2 == 0):
                ev.append({"op": "split", "arg": []})
            for _ in range(3):
                c = a[0] + rng.randint(-2, w + 2)
                if a[0] < c < a[2]:
                    ev.append({"op": "split_horizontal", "arg": [c]})
                ev.append({"op": "x_cuttable", "arg": [c, 1, rng.choice([100, 10, 4])]})
                c = a[1] + rng.randint(-2, h + 2)
                if a[1] < c < a[3]:
                    ev.append({"op": "split_vertical", "arg": [c]})
                ev.append({"op": "y_cuttable", "arg": [c, 1, rng.choice([100, 10, 4])]})
                ev.append({"op": "point_inside", "arg": [2 * a[0] + rng.randint(-3, 2 * w + 3), 2 * a[1] + rng.randint(-3, 2 * h + 3)]})
            cases.append({"kind": "one", "a": ta, "b": [0, 0, 0, 0, "g", 0, 0], "events": ev})
    # elongated rectangles cut next to a side: the stated fraction decides (fraction 0: every cut strictly inside is allowed;
    # the default is 1%; seeded C18-9: an explicit 0 must not be taken for "not given")
    for _ in range(max(20, n // 10)):
        w, h = rng.randint(2, 6), rng.randint(100, 400)
        if rng.random() < 0.5:
            w, h = h, w
        x0, y0 = rng.randint(0, 8), rng.randint(0, 8)
        ta = [x0, y0, x0 + w, y0 + h, rng.choice("gr"), 0, 0]
        ev = []
        for _k in range(4):
            rat = rng.choice([[0, 1], [0, 1], [1, 1000], [1, 100, 1], [1, 100], [1, 4]])
            # (cuts exactly ON a side are left to the block above, with fractions >= 1%: with fraction 0 and coordinates that
            #  are not exact in binary, the rounding of the side decides them, not the geometry)
            cx = x0 + rng.choice([o for o in (1, 2, w - 1, w // 2) if 0 < o < w] + [-1, w + 1])
            cy = y0 + rng.choice([o for o in (1, 2, h - 1, h // 2) if 0 < o < h] + [-1, h + 1])
            ev.append({"op": "x_cuttable", "arg": [cx] + rat})
            ev.append({"op": "y_cuttable", "arg": [cy] + rat})
        cases.append({"kind": "one", "a": ta, "b": [0, 0, 0, 0, "g", 0, 0], "events": ev})
    return cases


def decide(ctx: Ctx, cases: list[dict]):
    """Run the cases on the real code, then let TLC judge every distinct observation."""
    prepare_imports()
    import frame.geometry.geometry  # noqa: F401  (imported in the parent, used only in children)
    for c in cases:
        c.setdefault("embs", EMBS)
        xs = [c["a"][2], c["a"][3], c["b"][2], c["b"][3]]
        c["extent"] = max(xs)
    results = run_cases(run_case, cases, nproc=16)
    traces, owners = {}, {}
    for c, (st, val) in zip(cases, results):
        if st != "ok":
            ctx.violation("no_result", {"case": c}, {"status": st})
            continue
        for en, obs in val.items():
            evs = []
            for ev, o in zip(c["events"], obs):
                ctx.count()
                if isinstance(o, dict):
                    clause = "raises" if "exc" in o else "off_lattice"
                    ctx.violation(clause, {"a": c["a"], "b": c["b"], "event": ev, "embedding": en}, o,
                                  {"op": ev["op"], "embedding": en})
                    continue
                evs.append({"op": ev["op"], "arg": ev["arg"], "res": o})
            t = {"a": c["a"], "b": c["b"], "exact": int(en in EXACT), "small": int(en == "micro"), "events": evs}
            key = digest(t)
            if key not in traces:
                t["id"] = key
                traces[key] = t
                owners[key] = []
            owners[key].append(en)
    verdicts = tlc.validate_traces(ctx, "GeometryTrace", "GeometryTrace", list(traces.values()))
    for key, v in verdicts.items():
        t = traces[key]
        nontrivial = t["a"][:4] != t["b"][:4]
        ctx.count(key, nontrivial=nontrivial, n=0)
        for (l, op) in v["fails"]:
            ev = t["events"][l - 1]
            prefix = t["events"][:l - 1] if any(e["op"] == "move" for e in t["events"][:l - 1]) else []
            ctx.violation(op, {"a": t["a"], "b": t["b"], "event": ev, "events_before": prefix, "embeddings": owners[key]},
                          {"observed": ev["res"]}, {"op": op, "embedding": owners[key][0]})
        for (l, op) in v["drift"]:
            if [l, op] not in v["fails"]:
                ctx.model_drift(f"{op}: observed value differs from the model's (property clauses hold)")
    for t in list(traces.values())[:3]:
        ctx.sample({"trace": t, "embeddings": owners[t["id"]]})


def tlaps_extras(ctx: Ctx) -> dict:
    """Unbounded complement (an extra, no verdict depends on it): the cut / halving lemmas of Geometry.tla proved by TLAPS
    for all integers (specs/proofs/GeometryProofs.tla)."""
    import os, re, shutil, subprocess
    src = os.path.join(os.path.dirname(tlc.SPECS), "specs", "proofs", "GeometryProofs.tla")
    dst = ctx.path("GeometryProofs.tla")
    try:
        shutil.copy(src, dst)
        p = subprocess.run(["tlapm", "--toolbox", "0", "0", "--cleanfp", "GeometryProofs.tla"], cwd=ctx.work, capture_output=True,
                           text=True, timeout=600)
        out = p.stdout + p.stderr
        m = re.search(r"All (\d+) obligations? proved", out)
        if m:
            return {"module": "specs/proofs/GeometryProofs.tla", "obligations": int(m.group(1)), "discharged": int(m.group(1)),
                    "checker_cmd": "tlapm --toolbox 0 0 --cleanfp GeometryProofs.tla"}
        return {"module": "specs/proofs/GeometryProofs.tla", "status": "not all obligations proved", "tail": out[-300:]}
    except Exception as e:
        return {"status": f"tlapm not run: {type(e).__name__}: {e}"}


def run(ctx: Ctx) -> int:
    if ctx.replay:
        import json
        rec = json.load(open(ctx.replay))
        c = rec["case"]
        kind = "one" if c["b"][:4] == [0, 0, 0, 0] else "pair"
        ev = c["event"]
        case = {"kind": kind, "a": c["a"], "b": c["b"], "events": [{"op": ev["op"], "arg": ev["arg"]}]}
        if c.get("events_before"):      # a live-object trace: replay the whole prefix on one object
            case = {"kind": "live", "a": c["a"], "b": c["b"],
                    "events": [{"op": e["op"], "arg": e["arg"]} for e in c["events_before"]] + case["events"]}
        decide(ctx, [case])
        return ctx.finish("model_checking", "replay of one recorded case")
    tier = ctx.tier
    tlc.model_check(ctx, "GeometryOps", f"GeometryOps_mc_{tier}", vacuity_ignore=("EmitPair", "EmitOne"))
    cases = tlc.generate(ctx, "GeometryOps", f"GeometryOps_gen_{tier}")
    rng = random.Random(ctx.seed * 1000003 + 18)
    cases += random_cases(rng, 600 if tier == "quick" else 6000)
    cases += live_cases(rng, 150 if tier == "quick" else 1500)
    decide(ctx, cases)
    if tier == "thorough":
        ctx.extra["tlaps"] = tlaps_extras(ctx)
    ctx.extra["embeddings"] = EMBS
    ctx.extra["cases_from_tlc"] = len(cases)
    ctx.assumptions += [
        "float dimension sampled by 8 embeddings of the integer lattice (steps 1, 1.0, 1/2, 1/10, 1/3, 1e3, 1e-3, 0.1+37.3), not enumerated",
        "Rectangle tolerance registers set as Die() would set them for the lattice extent (1e-11 * extent)",
        "x/y_cuttable judged only outside the open sliver band the statement leaves free",
    ]
    return ctx.finish(
        "model_checking",
        "TLC enumerates all rectangle pairs / single rectangles on the lattice with every operation and argument; "
        "each (case, embedding) is one evaluation per event; distinct = distinct pulled-back observation traces "
        "judged by TLC; non-trivial = operands differ (pair) or single-rectangle operation traces",
        exhaustive=False)
