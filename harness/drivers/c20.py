"""C20 -- Results do not depend on what the process did before.

TLC (Process) enumerates every history (sequence of operation kinds x design scales within the factor-1000 band)
followed by every probe kind, proves NoLeak on the register model, and emits the behaviours.  Each behaviour runs in
a forked child of a pristine parent (FRAME imported, never used): the history operations on unrelated random
designs, then the probed operation; the canonical digest of the probe's observable result is compared (by TLC,
ProcessTrace) with the digest of the same probe executed alone in another fresh child.  The registers
(Rectangle tolerance written?, size of the ROBDD store) are logged after every step and checked against the
model as conformance only.
"""
from __future__ import annotations

import contextlib
import hashlib
import re
import io
import json
import random
import shutil
import tempfile
from fractions import Fraction as F

from ..core import Ctx, canon
from ..forkpool import prepare_imports, run_cases
from .. import tlc

# scale index -> factor applied to a base design whose dimensions lie in [2, 20]; the probed design has factor 1.
# Every dimension of every history design is then within 1000x of every dimension of the probed design.
FACTORS = [F(1, 50), F(1, 7), F(1), F(7), F(50)]
KINDS = ["netlist", "die", "alloc", "stog", "encode", "legal", "strop", "initalloc"]
HIST_KINDS = KINDS + ["undef", "pads"]  # undef = the public call Rectangle.undefine_epsilon(); pads = a netlist of terminals only
PROBE_KINDS = KINDS + ["sliver"]
STEPS = [F(1, 10), F(1, 3), F(7, 10), F(11, 10), F(1)]


def fl(x) -> float:
    return float(x)


def unit(rng: random.Random, f: F) -> F:
    """base unit U of a design: U = q*step*f with q*step in [2, 2.2]; every DIMENSION (rectangle side, sqrt(area), die side)
    of a design is j*U with 1 <= j <= 9, hence within [2f, 19.8f]; positions are multiples of U too"""
    step = rng.choice(STEPS)
    q = -(-2 // step)          # ceil(2 / step)
    return q * step * f


# --------------------------------------------------------------------------------------------- designs
def d_netlist(rng: random.Random, f: F, bad: bool = False, pads: bool = False):
    u = unit(rng, f)
    if pads:   # a design of I/O pads only: terminals at positions on the design's own unit grid, no extent of their own
        n = rng.randint(2, 4)
        mods = {f"T{i}": {"terminal": True, "center": [fl(rng.randint(0, 12) * u), fl(rng.randint(0, 12) * u)]} for i in range(n)}
        return {"Modules": mods, "Nets": [list(mods)]}
    mods = {}
    n = rng.randint(2, 4)
    for i in range(n):
        k = rng.random()
        if k < 0.4:
            mods[f"A{i}"] = {"area": fl((rng.randint(2, 9) * u) ** 2), "center": [fl(rng.randint(5, 12) * u), fl(rng.randint(5, 12) * u)]}
        else:
            w, h = rng.randint(2, 8), rng.randint(2, 8)
            x, y = rng.randint(5, 12), rng.randint(5, 12)
            rects = [[fl(x * u), fl(y * u), fl(w * u), fl(h * u)]]
            if rng.random() < 0.6:   # a branch abutting on the east
                h2 = rng.randint(1, h)
                w2 = rng.randint(1, 4)
                rects.append([fl((x + F(w, 2) + F(w2, 2)) * u), fl((y - F(h, 2) + F(h2, 2)) * u), fl(w2 * u), fl(h2 * u)])
            if k < 0.7:
                mods[f"A{i}"] = {"area": fl(sum(F(r[2]) * F(r[3]) for r in rects)), "rectangles": rects}
            else:
                mods[f"A{i}"] = {"hard": True, "rectangles": rects}
    names = list(mods)
    nets = [[names[0], names[1]], names[:] + [2.5]] if n > 2 else [[names[0], names[1], 2]]
    if bad:
        nets.append([names[0], "Zz"])
    return {"Modules": mods, "Nets": nets}


def d_die(rng: random.Random, f: F, bad: bool = False):
    u = unit(rng, f)
    if not bad and rng.random() < 0.5:
        # a die with ONE region in a corner, of any proportions: all of them have the same occupancy pattern on their own
        # grid lines and differ in every dimension (seeded C20-8: nothing computed for one die may answer for another)
        W, H = rng.randint(5, 12), rng.randint(5, 12)
        w, h = rng.randint(1, W - 1), rng.randint(1, H - 1)
        cx, cy = rng.choice([(F(w, 2), F(h, 2)), (W - F(w, 2), H - F(h, 2))])
        return {"width": fl(W * u), "height": fl(H * u),
                "regions": [[fl(cx * u), fl(cy * u), fl(w * u), fl(h * u), rng.choice(["#", "#", "DSP"])]]}
    W, H = rng.randint(5, 9), rng.randint(5, 9)
    regs = []
    x = 0
    h0 = rng.randint(1, H - 1)
    tags = ["#", "BRAM", "DSP", "#", "LUT", "URAM"]
    while x < W and len(regs) < 4:      # a row of touching regions along the bottom border
        w = rng.randint(1, 3)
        if x + w > W:
            break
        h = rng.randint(1, h0)
        regs.append([fl((x + F(w, 2)) * u), fl(F(h, 2) * u), fl(w * u), fl(h * u), tags[len(regs)]])
        x += w
    x = W
    while x > 0 and len(regs) < 7:      # and one along the top border, from the right
        w = rng.randint(1, 3)
        if x - w < 0:
            break
        h = rng.randint(1, H - h0)
        regs.append([fl((x - F(w, 2)) * u), fl((H - F(h, 2)) * u), fl(w * u), fl(h * u), tags[len(regs) % 6]])
        x -= w
    if bad and regs:
        r = list(regs[0]); r[4] = "X1"; r[0] = fl(F(r[0]) + u)
        regs.append(r)
    return {"width": fl(W * u), "height": fl(H * u), "regions": regs}


def d_alloc(rng: random.Random, f: F, bad: bool = False):
    u = unit(rng, f)
    n = rng.randint(2, 4)
    cells = []
    x = 0
    for i in range(n):
        w = rng.randint(1, 4)
        alloc = {} if rng.random() < 0.15 else {"M1": rng.choice([0.0, 0.25, 0.3, 0.5]), "M2": rng.choice([0.1, 0.5, 0.7])}
        cells.append([[fl((x + F(w, 2)) * u), fl(3 * u), fl(w * u), fl(6 * u)], alloc])
        x += w
    if bad:   # two cells overlap by half a unit: the allocation must be refused, first thing in a process or not
        c = cells[-1]
        cells.append([[fl(F(c[0][0]) + F(c[0][2]) / 2), c[0][1], c[0][2], c[0][3]], {"M1": 0.5}])
    return cells


def d_initalloc(rng: random.Random, f: F, bad: bool = False):
    """a die and a netlist of soft modules with rectangles, for create_initial_allocation; `bad`: a module with two NESTED
    rectangles (a legal netlist: soft rectangles may overlap) covers some cell more than once, which the allocation
    refuses ('Invalid allocation') after part of the work has been done"""
    u = unit(rng, f)
    W, H = rng.randint(6, 10), rng.randint(6, 10)
    mods = {}
    for i in range(rng.randint(1, 3)):
        w, h = rng.randint(2, 4), rng.randint(2, 4)
        x, y = rng.randint(0, W - w) + F(w, 2), rng.randint(0, H - h) + F(h, 2)
        rects = [[fl(x * u), fl(y * u), fl(w * u), fl(h * u)]]
        mods[f"S{i}"] = {"area": fl(w * h * u * u), "rectangles": rects}
    if bad:   # the whole die and, again, its left half: every cell of the left half is covered twice
        mods["S0"]["rectangles"] = [[fl(F(W, 2) * u), fl(F(H, 2) * u), fl(W * u), fl(H * u)],
                                    [fl(F(W, 4) * u), fl(F(H, 2) * u), fl(F(W, 2) * u), fl(H * u)]]
        mods["S0"]["area"] = fl(F(3, 2) * W * H * u * u)
    return {"die": f"{fl(W * u)!r}x{fl(H * u)!r}", "net": {"Modules": mods, "Nets": []}, "n": rng.randint(2, 6)}


def d_stog(rng: random.Random, f: F):
    """a module of 2-4 rectangles that is a STOG, a near miss, or not a polygon"""
    u = unit(rng, f)
    tw, th = rng.randint(3, 8), rng.randint(3, 8)
    tx, ty = rng.randint(12, 20), rng.randint(12, 20)
    rects = [[tx, ty, tx + tw, ty + th]]
    for side in rng.sample("NSEW", rng.randint(1, 3)):
        g = rng.choice([0, 0, 0, 1])          # gap: near miss
        if side == "N":
            a = rng.randint(tx, tx + tw - 1); b = rng.randint(a + 1, tx + tw)
            rects.append([a, ty + th + g, b, ty + th + g + rng.randint(1, 3)])
        elif side == "S":
            a = rng.randint(tx, tx + tw - 1); b = rng.randint(a + 1, tx + tw)
            rects.append([a, ty - g - rng.randint(1, 3), b, ty - g])
        elif side == "E":
            a = rng.randint(ty, ty + th - 1); b = rng.randint(a + 1, ty + th)
            rects.append([tx + tw + g, a, tx + tw + g + rng.randint(1, 3), b])
        else:
            a = rng.randint(ty, ty + th - 1); b = rng.randint(a + 1, ty + th)
            rects.append([tx - g - rng.randint(1, 3), a, tx - g, b])
    rng.shuffle(rects)
    rl = [[fl(F(r[0] + r[2], 2) * u), fl(F(r[1] + r[3], 2) * u), fl((r[2] - r[0]) * u), fl((r[3] - r[1]) * u)] for r in rects]
    return {"Modules": {"S": {"area": fl(sum(F(r[2]) * F(r[3]) for r in rl)), "rectangles": rl}}, "Nets": []}


TAILS = [[(6, "b"), (5, "c"), (3, "d")], [(5, "b"), (3, "c"), (3, "d")], [(6, "b"), (3, "c"), (2, "d")]]


def d_encode(rng: random.Random):
    """an inequality over the generic variable names a, b, c, d (unrelated designs share variable NAMES, as the
    b<i>_<cell> variables of tools/rect do).  Leading term on `a`, then one of three common tails and one of three
    bounds, so that sub-constraints of different designs coincide and the shared diagram store is really exercised
    (with and without coefficient decomposition)."""
    if rng.random() < 0.7:
        terms = [(rng.choice([7, 8, 9]), "a", False)] + [(c, v, False) for c, v in rng.choice(TAILS)]
        bound = rng.choice([9, 10, 11])
        op = ">="
    else:
        nt = rng.randint(2, 4)
        vs = rng.sample("abcd", nt)
        coefs = sorted((rng.choice([1, 2, 3, 3, 5, 6, 7]) for _ in range(nt)), reverse=True)
        terms = [(c, v, rng.random() < 0.15) for c, v in zip(coefs, sorted(vs))]
        bound = rng.randint(1, max(1, sum(coefs) - 1))
        op = rng.choice([">=", "<="])
    return {"terms": terms, "bound": bound, "op": op, "decomp": rng.random() < 0.5,
            "amo": rng.sample("abcd", rng.randint(0, 4)), "heule": rng.random() < 0.5,
            # (history only) a whole run of tools/rect on another design first: ~80 large inequalities, > 10 000 diagram nodes
            "bulk": rng.randrange(10 ** 6) if rng.random() < 0.25 else 0}


def d_legal(rng: random.Random, f: F):
    u = unit(rng, f)
    mods = {}
    tx = 1
    for i in range(rng.randint(1, 2)):
        w, h = rng.randint(1, 3), rng.randint(1, 3)
        rects = [[fl((tx + F(w, 2)) * u), fl((3 + F(h, 2)) * u), fl(w * u), fl(h * u)]]
        if rng.random() < 0.5:
            rects.append([fl((tx + F(w, 2)) * u), fl((3 + h + F(1, 2)) * u), fl(w * u), fl(1 * u)])
        mods[f"L{i}"] = {"area": fl(sum(F(r[2]) * F(r[3]) for r in rects)), "rectangles": rects}
        tx += w + 1
    return {"doc": {"Modules": mods, "Nets": []}, "W": fl(9 * u), "H": fl(9 * u)}


def d_strop(rng: random.Random):
    n, m = rng.randint(2, 4), rng.randint(2, 4)
    return ["".join(rng.choice("01") if rng.random() < 0.4 else "1" for _ in range(m)) for _ in range(n)]


def d_sliver(rng: random.Random, f: F):
    """A hard module of two rectangles that overlap by a strip whose AREA is 3x (rejected) or 1/3 (accepted) of the area
    tolerance this very design gives a fresh process (Netlist: distance tolerance = 1e-12 * smallest dimension, area
    tolerance = its square root).  The verdict is decided by the tolerance in force."""
    import math
    u = unit(rng, f)
    side = 2 * float(u)
    aeps = math.sqrt(1e-12 * side)
    area = aeps * (3.0 if rng.random() < 0.5 else 1 / 3.0)
    delta = area / side
    x0 = 5 * float(u)
    rects = [[x0, x0, side, side], [x0 + side - delta, x0, side, side]]
    return {"Modules": {"H": {"hard": True, "rectangles": rects}}, "Nets": []}


def make_design(kind: str, seed: int, sidx: int, probe: bool = False):
    rng = random.Random(seed)
    f = FACTORS[sidx]
    # a third of the probes are ill-formed designs (the verdict is a result too); in a history one operation in five is one
    # that the library refuses half-way (seeded C20-12: a refused call must leave nothing behind either)
    bad = (seed % 3 == 0) if probe else (seed % 5 == 0)
    if kind == "netlist":
        return d_netlist(rng, f, bad=bad)
    if kind == "pads":
        return d_netlist(rng, f, pads=True)
    if kind == "die":
        return d_die(rng, f, bad=bad)
    if kind == "alloc":
        return d_alloc(rng, f, bad=bad)
    if kind == "initalloc":
        return d_initalloc(rng, f, bad=bad)
    if kind == "stog":
        return d_stog(rng, f)
    if kind == "encode":
        return d_encode(rng)
    if kind == "legal":
        return d_legal(rng, f)
    if kind == "strop":
        return d_strop(rng)
    if kind == "sliver":
        return d_sliver(rng, f)
    if kind == "undef":
        return None
    raise ValueError(kind)


# --------------------------------------------------------------------------------------------- operations
def rrepr(r):
    return [repr(float(r.center.x)), repr(float(r.center.y)), repr(float(r.shape.w)), repr(float(r.shape.h)), r.region,
            r.location.name, int(r.fixed), int(r.hard)]


def op_netlist(doc):
    from frame.netlist.netlist import Netlist
    try:
        n = Netlist(doc)
    except AssertionError as e:
        return ["reject", str(e)[:60]]
    out = ["accept"]
    for m in n.modules:
        c = m.center
        out.append([m.name, repr(float(m.area())), None if c is None else [repr(float(c.x)), repr(float(c.y))],
                    [rrepr(r) for r in m.rectangles], int(m.has_stog)])
    out.append([[[m.name for m in e.modules], repr(float(e.weight))] for e in n.edges])
    try:
        out.append(repr(float(n.wire_length)))
    except Exception as e:
        out.append(type(e).__name__)
    out.append(n.write_yaml())        # the written document is a result too
    return out


def op_die(doc):
    from frame.die.die import Die
    try:
        d = Die(doc)
    except AssertionError as e:
        return ["reject", str(e)[:40]]
    ground = sorted(rrepr(r) for r in d.ground_regions)
    d.split_refinable_regions(1.5, 6)
    ref, fx = d.floorplanning_rectangles()
    return ["accept", ground, sorted(rrepr(r) for r in ref), sorted(rrepr(r) for r in d.blockages), d.write_yaml()]


def op_alloc(doc):
    from frame.allocation.allocation import Allocation
    try:
        a = Allocation(doc)
    except AssertionError as e:
        return ["reject", str(e)[:30]]
    out = [int(a.must_be_refined(0.4))]
    a = a.refine(0.4, 2).griddify().uniform_refinement_depth()
    out.append(sorted([rrepr(x.rect)[:4], sorted(x.alloc.items()), x.depth] for x in a.allocations))
    out.append(a.write_yaml())
    return out


def op_initalloc(d):
    from frame.netlist.netlist import Netlist
    from frame.die.die import Die
    from frame.allocation.allocation import create_initial_allocation
    die = Die(d["die"], Netlist(d["net"]))
    die.split_refinable_regions(1.5, d["n"])
    try:
        a = create_initial_allocation(die)
    except AssertionError as e:
        return ["refused", str(e)[:20]]
    a = a.refine(0.5)
    return ["ok", sorted([rrepr(x.rect)[:4], sorted(x.alloc.items()), x.depth] for x in a.allocations), a.write_yaml()]


def op_encode(d):
    from tools.rect.satmanager import SATManager
    from tools.rect.pseudobool import Expr
    from pysat.solvers import Solver
    if d.get("bulk") and d.get("in_history"):
        rb = random.Random(d["bulk"])
        for _ in range(80):
            mb = SATManager()
            vs = [mb.newvar(f"v{i}", "") for i in range(14)]
            cs = [rb.randint(1, 60) for _ in vs]
            eb = Expr()
            for c, v in zip(cs, vs):
                eb = eb + v * c
            mb.pseudoboolencoding(eb >= sum(cs) // 2, False)
    m = SATManager()
    lits = {v: m.newvar(v, "") for v in "abcd"}
    e = Expr()
    for (c, v, neg) in d["terms"]:
        e = e + (-lits[v] if neg else lits[v]) * c
    ineq = (e >= d["bound"]) if d["op"] == ">=" else (e <= d["bound"])
    refused = 0
    try:
        m.pseudoboolencoding(ineq, d["decomp"])
    except Exception:
        refused = 1
    if len(d["amo"]) >= 2:
        ls = [lits[v] for v in d["amo"]]
        m.heuleencoding(ls, 3) if d["heule"] else m.quadraticencoding(ls)
    sat = int(m.solve())
    # projection of the CNF on the user's variables
    s = Solver()
    for cl in m.clauses:
        s.add_clause([-m.ttable[x.v] if x.s == m.isflipped(x.v) else m.ttable[x.v] for x in cl])
    proj = []
    for bits in range(16):
        assum = [(m.ttable[v] if (bits >> i) & 1 else -m.ttable[v]) for i, v in enumerate("abcd")]
        proj.append(int(s.solve(assumptions=assum)))
    # the encoding itself, up to the names that legitimately vary (robdd_<id>, aux_<n>): size and shape of the CNF
    shape = sorted(len(cl) for cl in m.clauses)
    return [refused, sat, proj, m.tcount, len(m.clauses), shape]


def op_legal(d):
    from frame.netlist.netlist import Netlist
    from tools.legalfloor import legalfloor as lf
    sink = io.StringIO()
    tmp = tempfile.mkdtemp(prefix="gk")
    old = tempfile.tempdir
    tempfile.tempdir = tmp
    try:
        with contextlib.redirect_stdout(sink):
            netlist = Netlist(d["doc"])
            ml, al, xl, yl, wl, hl, hyper, names = lf.netlist_to_utils(netlist)
            model = lf.Model(ml, al, xl, yl, wl, hl, d["W"], d["H"], hyper, 3.0, names, 0.9, 0.3, 1)
            model.time.assign(500.0)
            model.gekko.fix(model.time)
            vec = []
            for g, eqs in sorted(model.gekko.constraints.items()):
                if g in ("radius", "Exact Value"):
                    continue
                vec.append([g, [int(bool(e.is_equation_met())) for e in eqs]])
            for mac in model.gekko.macros:
                vec.append(["macro", [[g, int(bool(e.is_equation_met()))] for g, e in mac.get_constraints(model.gekko)]])
            # what the model knows about itself: its variables (names), groups and the value of its objective
            vec.append(["variables", sorted(str(v.data.get("name")) for v in model.gekko.variable_list)])
            vec.append(["groups", sorted((g, len(eqs)) for g, eqs in model.gekko.constraints.items())])
            try:
                vec.append(["objective", repr(float(model.gekko.objective.evaluate())),
                            repr(float(model.gekko.dif_cost_objective().evaluate()))])
            except Exception as e:
                vec.append(["objective", type(e).__name__])
        return vec
    finally:
        tempfile.tempdir = old
        shutil.rmtree(tmp, ignore_errors=True)


def op_strop(rows):
    from tools.floorset_parser.floor_set_manager.strop import Strop
    s = Strop("\n".join(rows))
    out = [int(bool(s.is_strop))]
    if s.is_strop:
        for inst in s.instances():
            out.append(sorted([r.rows.low, r.rows.high, r.columns.low, r.columns.high] for r in inst.rectangles()))
    return out


def op_undef(_d):
    from frame.geometry.geometry import Rectangle
    Rectangle.undefine_epsilon()
    return ["undefined"]


OPS = {"undef": op_undef, "initalloc": op_initalloc, "pads": op_netlist, "sliver": op_netlist, "netlist": op_netlist, "die": op_die, "alloc": op_alloc, "stog": op_netlist, "encode": op_encode,
       "legal": op_legal, "strop": op_strop}


TEXT_KINDS = {"netlist", "die", "alloc", "stog", "pads", "sliver"}


def as_document(kind, design, seed: int, in_history: bool):
    """The design as the loader receives it: the tree itself, or (two cases in three) a YAML text of it in which whole
    numbers are written with a leading zero (010: ten in YAML 1.2, which is what FRAME reads; eight in YAML 1.1).  In a
    history one text in four starts with a '%YAML 1.1' directive: a legal document of its own, whose reading must not
    change how LATER documents are read (seeded C20-7: one parser object shared by all loads)."""
    if kind not in TEXT_KINDS or seed % 3 == 0:
        return design
    text = json.dumps(design)
    text = re.sub(r"(?<![\w.+-])([1-9]\d*)\.0(?![\de])", r"0\1", text)
    if in_history and seed % 4 == 1:
        text = "%YAML 1.1\n---\n" + text
    return text + "\n"


def safe(kind, design):
    try:
        return OPS[kind](design)
    except Exception as e:
        return ["raised", type(e).__name__, str(e)[:80]]


def as_ints(obj) -> list[int]:
    # object addresses in a message (a default repr) differ between processes and are nobody's result
    h = hashlib.sha1(re.sub(r'0x[0-9a-fA-F]{6,}', '0x', canon(obj)).encode()).hexdigest()
    return [int(h[i:i + 7], 16) for i in range(0, 28, 7)]


def _eps_state(Rectangle):
    """The process-wide tolerance through the public accessors (conformance event only)."""
    try:
        return Rectangle.distance_epsilon() if Rectangle.epsilon_defined() else None
    except Exception:
        return None


def run_behaviour(b):
    """b: {hist: [[kind, sidx, seed]...], probe: kind, pseed, fresh: bool}"""
    from frame.geometry.geometry import Rectangle
    from tools.rect import pseudobool
    events = []
    for (kind, sidx, seed) in b["hist"]:
        before = _eps_state(Rectangle)
        design = make_design(kind, seed, sidx)
        if kind == "encode":
            design["in_history"] = True
        r = safe(kind, as_document(kind, design, seed, True))
        refused = int(isinstance(r, list) and len(r) > 0 and r[0] in ("reject", "refused", "raised"))
        events.append([kind, sidx, int(_eps_state(Rectangle) != before), len(getattr(pseudobool, 'memory', ())), refused])
    res = safe(b["probe"], as_document(b["probe"], make_design(b["probe"], b["pseed"], 2, probe=True), b["pseed"], False))
    return {"events": events, "digest": as_ints(res), "res": res if b.get("keep") else None}


def run(ctx: Ctx) -> int:
    prepare_imports()
    import frame.allocation.allocation, frame.die.die, frame.netlist.netlist  # noqa: F401,E401
    import tools.rect.satmanager, tools.rect.pseudobool  # noqa: F401,E401
    import tools.legalfloor.legalfloor  # noqa: F401
    import tools.floorset_parser.floor_set_manager.strop  # noqa: F401
    rng = random.Random(ctx.seed * 1000003 + 20)
    if ctx.replay:
        rec = json.load(open(ctx.replay))["case"]
        behaviours = [{"hist": rec["hist"], "probe": rec["probe"], "pseed": rec["pseed"]}]
    else:
        tier = ctx.tier
        tlc.model_check(ctx, "Process", f"Process_mc_{tier}", vacuity_ignore=("Emit",))
        gen = tlc.generate(ctx, "Process", f"Process_gen_{tier}")
        ctx.extra["behaviours_enumerated_by_tlc"] = len(gen)
        behaviours = []
        gen = [g for g in gen if not (g["probe"] == "sliver" and g["eps_owner"] != 0)]   # sliver: only with the tolerance unset
        rng.shuffle(gen)
        gen = gen[:(1500 if tier == "quick" else 20000)]
        for g in gen:
            hist = [[h[0], h[1], rng.randrange(10 ** 6)] for h in g["hist"]]
            behaviours.append({"hist": hist, "probe": g["probe"], "pseed": rng.randrange(300)})
        # histories that set the tolerances at another scale and then undefine them, followed by a sliver probe
        for _ in range(120 if tier == "quick" else 1500):
            hist = [[rng.choice(["netlist", "die", "alloc", "stog"]), rng.choice([0, 0, 1, 3, 4, 4]), rng.randrange(10 ** 6)]
                    for _ in range(rng.randint(1, 2))] + [["undef", 2, 0]]
            behaviours.append({"hist": hist, "probe": "sliver", "pseed": rng.randrange(300)})
        # same-subsystem histories: most leak channels are shared by operations of one kind (the tolerance registers by
        # the loaders, the diagram store by encodings, the expression-tree globals by legaliser models)
        loaders = ["netlist", "die", "alloc", "stog", "legal", "pads", "initalloc"]
        for k in KINDS:
            for _ in range(60 if tier == "quick" else 600):
                prev = loaders if k in loaders else [k]
                hist = [[rng.choice(prev), rng.choice([0, 0, 1, 2, 3, 4, 4]), rng.randrange(10 ** 6)] for _ in range(rng.randint(1, 3))]
                behaviours.append({"hist": hist, "probe": k, "pseed": rng.randrange(300)})
        # die after dies: the decomposition of one die must not answer for another die with the same occupancy pattern
        for _ in range(60 if tier == "quick" else 800):
            hist = [["die", rng.choice([0, 1, 2, 2, 3, 4]), rng.randrange(10 ** 6)] for _ in range(rng.randint(1, 3))]
            behaviours.append({"hist": hist, "probe": "die", "pseed": rng.randrange(300)})
        # an operation the library refuses half-way, then a design it must refuse (or accept) as a fresh process would
        for _ in range(60 if tier == "quick" else 800):
            hist = [[rng.choice(["initalloc", "initalloc", "alloc", "netlist", "die"]), rng.choice([1, 2, 2, 3]), 5 * rng.randrange(2 * 10 ** 5)]
                    for _ in range(rng.randint(1, 2))]
            behaviours.append({"hist": hist, "probe": rng.choice(["alloc", "alloc", "netlist", "die", "initalloc"]), "pseed": 3 * rng.randrange(100)})
        # longer random histories than TLC enumerates
        for _ in range(300 if tier == "quick" else 4000):
            hist = [[rng.choice(HIST_KINDS), rng.randrange(5), rng.randrange(10 ** 6)] for _ in range(rng.randint(3, 6))]
            behaviours.append({"hist": hist, "probe": rng.choice(KINDS), "pseed": rng.randrange(300)})
    fresh_keys = sorted({(b["probe"], b["pseed"]) for b in behaviours})
    fresh_cases = [{"hist": [], "probe": k, "pseed": s} for (k, s) in fresh_keys]
    fres = run_cases(run_behaviour, fresh_cases, nproc=16, fresh=True, case_timeout=120)
    fresh = {}
    for (k, s), (st, v) in zip(fresh_keys, fres):
        if st != "ok":
            ctx.violation("no_result", {"probe": k, "pseed": s, "hist": []}, {"status": st})
            continue
        fresh[(k, s)] = v["digest"]
    res = run_cases(run_behaviour, behaviours, nproc=16, fresh=True, case_timeout=180)
    traces = []
    for i, (b, (st, v)) in enumerate(zip(behaviours, res)):
        ctx.count()
        if (b["probe"], b["pseed"]) not in fresh:
            continue
        if st != "ok":
            ctx.violation("no_result", {"hist": b["hist"], "probe": b["probe"], "pseed": b["pseed"]}, {"status": st})
            continue
        t = {"id": f"b{i}", "hist": v["events"], "probe": b["probe"], "fresh": fresh[(b["probe"], b["pseed"])], "after": v["digest"]}
        traces.append(t)
        ctx.count(canon([b["probe"], [h[:2] for h in b["hist"]]]), nontrivial=len(b["hist"]) >= 1, n=0)
    verdicts = tlc.validate_traces(ctx, "ProcessTrace", "ProcessTrace", traces, chunk=5000)
    byid = {f"b{i}": b for i, b in enumerate(behaviours)}
    for t in traces:
        v = verdicts[t["id"]]
        b = byid[t["id"]]
        for (l, clause) in v["fails"]:
            ctx.violation(clause, {"hist": b["hist"], "probe": b["probe"], "pseed": b["pseed"]},
                          {"fresh_digest": t["fresh"], "after_digest": t["after"]},
                          {"probe": b["probe"], "history_kinds": sorted({h[0] for h in b["hist"]})})
        for (l, what) in v["drift"]:
            ctx.model_drift(what)
    for t in traces[:3]:
        ctx.sample({"behaviour": byid[t["id"]], "trace": t})
    if ctx.replay:
        return ctx.finish("model_checking", "replay of one recorded behaviour")
    ctx.extra["scale_factors"] = [str(f) for f in FACTORS]
    ctx.extra["probe_kinds"] = PROBE_KINDS
    ctx.assumptions += [
        "'within a factor of 1000' is read conservatively: every dimension of every history design is within 1000x of every "
        "dimension of the probed design (base dimensions 2..20, history factors 1/50..50)",
        "observable result = verdict, numbers (exact repr), region/cell sets, roles, CNF projection on the user's variables, "
        "equation-met vector; names/ids that legitimately vary (robdd_<id>, aux_<n>) are not part of it",
    ]
    return ctx.finish(
        "model_checking",
        "TLC enumerates all histories of length <= 2 (quick) / 3 (thorough) over 7 operation kinds x scale indices followed by each "
        "of 7 probe kinds; a seeded sample is executed (quick 1500, thorough 20000) plus random histories of length 3-6; evaluation "
        "= one forked interpreter; distinct = distinct (probe kind, history kinds/scales); non-trivial = non-empty history",
        exhaustive=False)
