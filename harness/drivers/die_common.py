"""Shared by C01 / C11 (and C03): building real Die objects from lattice descriptions and observing them."""
from __future__ import annotations

import hashlib
import json
import os
import random
import shutil
import tempfile

from ..lattice import EMBEDDINGS, OffLattice


def metric_regs(case) -> list[list]:
    """lattice lines -> metric micro-units using the case's XS/YS maps"""
    out = case["out"]
    xs, ys = case["xs"], case["ys"]
    return [[xs[t[0] + out], ys[t[1] + out], xs[t[2] + out], ys[t[3] + out], t[4]] for t in case["regs"]]


def die_size(case) -> tuple[int, int]:
    out = case["out"]
    return case["xs"][case["dw"] + out], case["ys"][case["dh"] + out]


def build_inputs(emb, mregs, dw, dh):
    """-> (die dict, netlist dict or None).  Every 'F' rectangle is the single rectangle of its own fixed module."""
    die = {"width": emb.length(dw), "height": emb.length(dh)}
    regions = []
    mods = {}
    nf = 0
    for t in mregs:
        cx, cy, w, h = emb.rect(t)
        if t[4] == "F":
            nf += 1
            mods[f"F{nf}"] = {"fixed": True, "rectangles": [[cx, cy, w, h]]}
        else:
            regions.append([cx, cy, w, h, t[4]])
    if regions:
        die["regions"] = regions
    net = {"Modules": mods, "Nets": []} if mods else None
    return die, net


def tagged(emb, rects, tag=None):
    out = []
    for r in rects:
        t = tag if tag is not None else r.region
        out.append(emb.back_rectangle(r) + [t])
    return out


def observe_die(emb, die):
    refinable, fixed = die.floorplanning_rectangles()
    return {
        "ground": tagged(emb, die.ground_regions),
        "spec": tagged(emb, die.specialized_regions),
        "block": tagged(emb, die.blockages),
        "fixed": tagged(emb, die.fixed_regions, "F"),
        "n_refinable": len(refinable), "n_fixed": len(fixed),
    }


def load_die(emb, mregs, dw, dh):
    """-> (die or None, load event)"""
    from frame.geometry.geometry import Rectangle
    from frame.die.die import Die
    from frame.netlist.netlist import Netlist
    Rectangle.undefine_epsilon()
    ddict, ndict = build_inputs(emb, mregs, dw, dh)
    # the same description in each of the forms the constructor documents: a tree, a YAML text, a file name (also one that
    # begins like a size: '30x20_die.yaml') and, for a die without regions, the string '<width>x<height>' with Python's own
    # number spelling (so exponents under the small / large embeddings).  The form is a function of the case: replays
    # rebuild it.
    form = int(hashlib.sha1(repr((emb.name, mregs, dw, dh)).encode()).hexdigest(), 16) % 10
    tmpdir = None
    try:
        # one attached netlist in four reaches its state through the API rather than being loaded in it: the fixed modules
        # are loaded somewhere else and moved to their place with assign_rectangles, and an extra fixed module is declared
        # and released (is_fixed = False) before the die is built -- the die must see the netlist as it is NOW
        hist = ndict is not None and (form * 7 + len(mregs)) % 4 == 0
        if hist:
            target = {name: [list(r) for r in m["rectangles"]] for name, m in ndict["Modules"].items()}
            for name, m in ndict["Modules"].items():
                m["rectangles"] = [[r[0] + 2 * r[2], r[1] + r[3], r[2], r[3]] for r in m["rectangles"]]
            first = next(iter(target.values()))[0]
            ndict["Modules"]["Fx"] = {"fixed": True, "rectangles": [[first[0] + first[2], first[1], first[2], first[3]]]}
        net = Netlist(ndict) if ndict is not None else None
        if hist:
            net.assign_rectangles(target)
            net.get_module("Fx").is_fixed = False
        twice = False
        if form <= 4:
            arg = ddict
            if form in (1, 4):      # a tree built by a program: numpy scalars as coordinates (they are numbers)
                import numpy as np
                arg = {"width": np.float64(ddict["width"]), "height": np.float64(ddict["height"])}
                if "regions" in ddict:
                    arg["regions"] = [[np.float64(v) for v in r[:4]] + [r[4]] for r in ddict["regions"]]
            twice = form in (2, 4)  # the same description object serves two dies (bare, then with the netlist): the second counts
        elif form == 9 and "regions" not in ddict:
            arg = f"{ddict['width']!r}x{ddict['height']!r}"
        else:
            text = json.dumps(ddict)
            if form <= 6:
                arg = text
            else:
                tmpdir = tempfile.mkdtemp(prefix="die")
                name = f"{ddict['width']!r}x{ddict['height']!r}_die.yaml" if form == 8 else "die.yaml"
                arg = os.path.join(tmpdir, name)
                with open(arg, "w") as f:
                    f.write(text + "\n")
        try:
            if twice:
                try:
                    Die(arg)
                except Exception:
                    pass            # (a description whose fixed part makes it invalid on its own, ...): only the second use is judged
                Rectangle.undefine_epsilon()
            die = Die(arg, net)
        finally:
            if tmpdir:
                shutil.rmtree(tmpdir, ignore_errors=True)
    except AssertionError as e:
        return None, {"op": "load", "verdict": "reject", "ground": [], "spec": [], "block": [], "fixed": [],
                      "why": str(e)[:120]}
    except Exception as e:  # still a rejection, but not the documented one
        return None, {"op": "load", "verdict": "reject", "ground": [], "spec": [], "block": [], "fixed": [],
                      "why": f"{type(e).__name__}: {e}"[:120], "odd_exception": 1}
    ev = {"op": "load", "verdict": "accept"}
    ev.update(observe_die(emb, die))
    return die, ev


def apply_op(emb, die, op):
    """C11 operations on a real die; returns the event with the lists observed afterwards."""
    ev = dict(op)
    if op["op"] == "refused":
        # a request outside the quantifier; whatever the code answers, the die is used again afterwards
        try:
            die.split_refinable_regions(op["p"] / op["q"], op["n"])
            ev["raised"] = 0
        except Exception as e:
            ev["raised"] = 1
            ev["why"] = f"{type(e).__name__}: {e}"[:120]
        refinable, fixed = die.floorplanning_rectangles()
        ev["refinable"] = tagged(emb, refinable)
        ev["block"] = tagged(emb, die.blockages)
        ev["fixed"] = tagged(emb, fixed, "F")
        return ev
    try:
        if op["op"] == "split":
            die.split_refinable_regions(op["p"] / op["q"], op["n"])
        else:
            die.initial_grid(op["nr"], op["nc"])
        ev["ok"] = 1
    except Exception as e:
        ev["ok"] = 0
        ev["why"] = f"{type(e).__name__}: {e}"[:120]
    refinable, fixed = die.floorplanning_rectangles()
    ev["refinable"] = tagged(emb, refinable)
    ev["block"] = tagged(emb, die.blockages)
    ev["fixed"] = tagged(emb, fixed, "F")
    return ev


def run_die_case(case):
    """case: {regs(metric) 'mregs', 'dw','dh' (metric), 'ops': [...], 'embs': [...]}
    -> {emb: [events]} or {emb: {"off": msg}}"""
    res = {}
    for en in case["embs"]:
        emb = EMBEDDINGS[en]
        try:
            die, ev = load_die(emb, case["mregs"], case["mdw"], case["mdh"])
            evs = [ev]
            if die is not None:
                for op in case.get("ops", []):
                    evs.append(apply_op(emb, die, op))
            res[en] = evs
        except OffLattice as e:
            res[en] = {"off": str(e)}
    return res


# ------------------------------------------------------------------------- random descriptions
def random_description(rng: random.Random, valid_bias: float = 0.7):
    """A larger die than TLC enumerates: 5..12 lattice steps, up to 10 regions; built by cutting the die with a
    random guillotine partition and tagging some leaves (=> valid, with holes / T-junctions / border contact);
    with probability 1 - valid_bias one region is then moved or grown to make the description invalid."""
    W, H = rng.randint(5, 12), rng.randint(5, 12)
    leaves = [[0, 0, W, H]]
    for _ in range(rng.randint(3, 14)):
        i = rng.randrange(len(leaves))
        x1, y1, x2, y2 = leaves[i]
        if rng.random() < 0.5 and x2 - x1 > 1:
            c = rng.randint(x1 + 1, x2 - 1)
            leaves[i:i + 1] = [[x1, y1, c, y2], [c, y1, x2, y2]]
        elif y2 - y1 > 1:
            c = rng.randint(y1 + 1, y2 - 1)
            leaves[i:i + 1] = [[x1, y1, x2, c], [x1, c, x2, y2]]
    rng.shuffle(leaves)
    k = rng.randint(1, min(10, len(leaves)))
    regs = [l + [rng.choice(["#", "R1", "R2", "F", "#", "F"])] for l in leaves[:k]]
    valid = 1
    if rng.random() > valid_bias:
        valid = 0
        t = regs[rng.randrange(len(regs))]
        mode = rng.randrange(3)
        if mode == 0:      # leaves the die on the right / top
            if rng.random() < 0.5:
                t[2] = W + rng.randint(1, 2)
            else:
                t[3] = H + rng.randint(1, 2)
        elif mode == 1 and len(regs) >= 2:   # overlaps another region
            u = regs[(regs.index(t) + 1) % len(regs)]
            t[0], t[1] = min(t[0], u[0]), min(t[1], u[1])
            t[2], t[3] = max(t[2], u[0] + 1), max(t[3], u[1] + 1)
        else:              # the same rectangle with another tag
            regs.append(t[:4] + ["R2" if t[4] != "R2" else "#"])
        # re-evaluate validity exactly
        valid = int(_valid(regs, W, H))
    return {"regs": regs, "valid": valid, "dw": W, "dh": H, "out": 0}


def _valid(regs, W, H):
    for t in regs:
        if t[0] < 0 or t[1] < 0 or t[2] > W or t[3] > H:
            return False
    for i, t in enumerate(regs):
        for u in regs[i + 1:]:
            if min(t[2], u[2]) > max(t[0], u[0]) and min(t[3], u[3]) > max(t[1], u[1]):
                return False
    return True
