"""KK -- the Kamada-Kawai relocation stage (tools/force/kamada_kawai.py + gekko_common.py), an extra engine.

TLC (KamadaKawai) has two machines.  The GRAPH machine is exact: it builds every netlist of the bounded universe net by
net, the adjacency matrix as the code builds it and the all-pairs distances by the code's in-place Floyd-Warshall, and
proves that (with a module at distance 0 from itself) they are the shortest-path metric -- and what they are with the
diagonal left at infinity, as the code leaves it.  The LAYOUT machine is a contract: Model(die) declares which
coordinates are variables and their bounds, the solver may return ANY values within them, extract_solution writes the
centres of the modules that are not fixed; every behaviour keeps fixed modules in place, centres in the die and
everything else untouched.  Both machines emit their cases.

The harness
  * calls the real netlist_to_matrix / get_all_shortest_path_lengths on a real Netlist for EVERY emitted graph
    (no solver involved), and
  * runs the real kamada_kawai_layout (GEKKO local solver, twice on equal inputs) on emitted layouts x emitted graphs
    under float embeddings, with harness-side wrappers of the module-level names that record the two matrices and
    what Model declared,
pulls everything back to integers / strings and lets TLC judge (KamadaKawaiTrace: JudgeSetup, JudgeRun = clauses;
SetupDrift, RunDrift = conformance).  Runs in which GEKKO reports that no solution was found are counted, not judged.
A seeded random driver adds netlists of 5-8 modules (hyperedges, weights, rectangles, disconnected parts).
"""
from __future__ import annotations

import json
import math
import random
import shutil
import struct

from ..core import Ctx, MachineryError, digest
from ..forkpool import prepare_imports, run_cases
from ..lattice import EMBEDDINGS, ORIGIN0
from .. import tlc

Q = 60                  # matrix entries are sent in 1/Q units
UNIT = 1e6              # coordinates are sent in units of 1e-6 * max(W, H)
LO, HI = -2_000_000, 3_000_000
KSCALE = 4              # harness lattice units per model lattice unit (TLC-generated layouts)
RUNS_PER_TRACE = 1


# ------------------------------------------------------------------------------------------ building the input
def build(case, emb):
    """lattice case -> (netlist tree, die tree) of Python numbers under the embedding"""
    from frame.utils.keywords import (KW_MODULES, KW_NETS, KW_AREA, KW_CENTER, KW_FIXED, KW_HARD, KW_TERMINAL,
                                      KW_RECTANGLES, KW_WIDTH, KW_HEIGHT)
    mods = {}
    for m in case["mods"]:
        k = m["kind"]
        d = {}
        if k == "soft":
            d[KW_AREA] = emb.area(m["area"])
            d[KW_CENTER] = [emb.coord(m["p"][0]), emb.coord(m["p"][1])]
        elif k in ("term", "fterm"):
            d[KW_TERMINAL] = True
            d[KW_CENTER] = [emb.coord(m["p"][0]), emb.coord(m["p"][1])]
            if k == "fterm":
                d[KW_FIXED] = True
        else:   # "hard" / "fixed": the centre is the centroid of the rectangles
            d[KW_FIXED if k == "fixed" else KW_HARD] = True
            d[KW_RECTANGLES] = [emb.rect(r) for r in m["rects"]]
        mods[m["name"]] = d
    names = [m["name"] for m in case["mods"]]
    nets = []
    for e in case["nets"]:
        w = e["w"][0] if e["w"][1] == 1 else e["w"][0] / e["w"][1]
        nets.append([names[i - 1] for i in e["pins"]] + ([] if w == 1 else [w]))
    nl = {KW_MODULES: mods}
    if nets:
        nl[KW_NETS] = nets
    return nl, {KW_WIDTH: emb.length(case["W"]), KW_HEIGHT: emb.length(case["H"])}


def graph_case_modules(n):
    """the graph machine only needs modules to exist: soft ones spread over a die"""
    return [{"name": f"M{j}", "kind": "soft", "area": 4, "p": [4 + 6 * (j % 4), 4 + 6 * (j // 4)]} for j in range(n)]


def _bits(p) -> str:
    try:
        return struct.pack(">dd", float(p.x), float(p.y)).hex()
    except Exception:
        return "none"


def _sig(die):
    """everything of the die and the netlist that is not a centre, as strings of exact representations"""
    nl = die.netlist
    mods, areas, rects = [["__die__", f"{die.width!r}x{die.height!r}"]], [], []
    for m in nl.modules:
        mods.append([m.name, f"fixed={int(m.is_fixed)} hard={int(m.is_hard)} terminal={int(m.is_terminal)} "
                             f"flip={int(m.flip)} ar={m.aspect_ratio!r}"])
        areas.append([repr(m.area()), repr(sorted(m.area_regions.items()))])
        rects.append([[repr(r.center.x), repr(r.center.y), repr(r.shape.w), repr(r.shape.h), str(r.region),
                       f"fixed={int(r.fixed)} hard={int(r.hard)} loc={r.location}"] for r in m.rectangles])
    nets = [[b.name for b in e.modules] + [repr(e.weight)] for e in nl.edges]
    return {"mods": mods, "areas": areas, "rects": rects, "nets": nets}


def _units(v, S):
    if isinstance(v, bool) or not isinstance(v, (int, float)) or not math.isfinite(v):
        return 0, 0
    return 1, max(LO, min(HI, round(v / S * UNIT)))


def _centres(die, S):
    ok, pts, bits = [], [], []
    for m in die.netlist.modules:
        c = m.center
        if c is None:
            ok.append(0); pts.append([0, 0]); bits.append("none"); continue
        ox, x = _units(c.x, S)
        oy, y = _units(c.y, S)
        ok.append(int(ox and oy)); pts.append([x, y]); bits.append(_bits(c))
    return ok, pts, bits


def _first(v):
    return v[0] if hasattr(v, "__getitem__") else v


def _matrix(a):
    """numpy matrix -> rows of integers in 1/Q units; -1 infinity, -2 anything else that is not on the grid"""
    rows = []
    for row in a.tolist():
        r = []
        for v in row:
            if isinstance(v, float) and math.isinf(v) and v > 0:
                r.append(-1)
            elif not isinstance(v, (int, float)) or not math.isfinite(v) or v < 0:
                r.append(-2)
            else:
                k = round(v * Q)
                r.append(k if abs(v * Q - k) <= 1e-6 * max(1.0, abs(k)) else -2)
        rows.append(r)
    return rows


# ------------------------------------------------------------------------------------------ the real code
def observe_setup(case):
    """netlist_to_matrix ; get_all_shortest_path_lengths, as kamada_kawai_layout calls them"""
    from frame.geometry.geometry import Rectangle
    from frame.netlist.netlist import Netlist
    import tools.force.kamada_kawai as kk
    Rectangle.undefine_epsilon()
    c = {"W": 32, "H": 32, "mods": graph_case_modules(case["n"]), "nets": case["nets"]}
    try:
        nld, _d = build(c, EMBEDDINGS["flt"])
        netlist = Netlist(nld)
    except Exception as e:
        return {"rejected": f"{type(e).__name__}: {e}"}
    try:
        graph = kk.netlist_to_matrix(netlist)
        g = _matrix(graph)
        d = _matrix(kk.get_all_shortest_path_lengths(graph))
    except Exception as e:
        return {"exc": f"{type(e).__name__}: {e}"[:300]}
    return {"kind": "setup", "n": case["n"], "nets": case["nets"], "graph": g, "dist": d, "where": "direct"}


def _is_no_solution(e: Exception) -> bool:
    s = str(e)
    return "Solution Not Found" in s or "solution not found" in s.lower()


def observe_run(case, en):
    """-> list of traces (without id) for one case under one embedding, or {"rejected": why}"""
    from frame.geometry.geometry import Rectangle
    from frame.netlist.netlist import Netlist
    from frame.die.die import Die
    import tools.force.kamada_kawai as kk
    from gekko.gk_variable import GKVariable

    emb = EMBEDDINGS[en]
    rec = {}
    orig = (kk.netlist_to_matrix, kk.get_all_shortest_path_lengths, kk.Model)

    def n2m(nl):
        g = orig[0](nl)
        rec["graph"] = g.copy()          # (the next function works in place on this very array)
        return g

    def fw(g):
        d = orig[1](g)
        rec["dist"] = d.copy()
        return d

    class Recording(orig[2]):
        def __init__(self, die):
            super().__init__(die)
            rec.setdefault("models", []).append(self)
            snap = []                      # what has just been declared (before any solve changes the values)
            for vx, vy in zip(self.x, self.y):
                if isinstance(vx, GKVariable) and isinstance(vy, GKVariable):
                    snap.append((1, vx.LOWER, vx.UPPER, vy.LOWER, vy.UPPER, _first(vx.value.value), _first(vy.value.value)))
                else:
                    snap.append((0, vx, vx, vy, vy, vx, vy))
            rec.setdefault("decls", []).append(snap)

    def one():
        Rectangle.undefine_epsilon()
        nld, died = build(case, emb)
        netlist = Netlist(nld)
        die = Die(died, netlist)
        return netlist, die

    try:
        netlist, die = one()
    except Exception as e:      # the generator must only produce inputs FRAME accepts; counted, never an accusation
        return {"rejected": f"{type(e).__name__}: {e}"}
    S = float(max(die.width, die.height))
    _, W6 = _units(die.width, S)
    _, H6 = _units(die.height, S)
    sig0 = _sig(die)
    _, p0, _ = _centres(die, S)
    o = {"kind": "run", "W": W6, "H": H6, "fx": [int(m.is_fixed) for m in netlist.modules], "p0": p0, "sig0": sig0,
         "ok": [0] * len(p0), "fin": p0, "sig1": sig0, "bitsA": [], "bitsB": [], "decl": [], "ret": -1, "why": ""}
    kk.netlist_to_matrix, kk.get_all_shortest_path_lengths, kk.Model = n2m, fw, Recording
    try:
        out = []
        for attempt in (0, 1):
            if attempt == 1:
                netlist, die = one()
            try:
                die2, _imgs = kk.kamada_kawai_layout(die, max_iter=case.get("max_iter", 150))
                out.append(die2)
            except Exception as e:
                import traceback
                rec.setdefault("tb", traceback.format_exc()[-600:])
                out.append(e)
        first = out[0]
        if isinstance(first, Exception):
            o["ret"] = 0 if _is_no_solution(first) else -1
            o["why"] = f"{type(first).__name__}: {first}"[:200].replace("\n", " ")
            o["exception"] = type(first).__name__
        else:
            o["ret"] = 1
            o["ok"], o["fin"], o["bitsA"] = _centres(first, S)
            o["sig1"] = _sig(first)
            o["bitsB"] = ["raised"] if isinstance(out[1], Exception) else _centres(out[1], S)[2]
            o["moved"] = int(o["fin"] != p0)
        # what Model declared (first execution)
        if rec.get("models"):
            o["decl"] = [[d[0]] + [_units(v, S)[1] for v in d[1:5]] + [[_units(d[5], S)[1], _units(d[6], S)[1]]]
                         for d in rec["decls"][0]]
            for mm in rec["models"]:
                shutil.rmtree(getattr(mm.gekko, "_path", "") or "/nonexistent", ignore_errors=True)
        traces = [o]
        if "graph" in rec and "dist" in rec:
            traces.append({"kind": "setup", "n": len(p0), "nets": case["nets"], "graph": _matrix(rec["graph"]),
                           "dist": _matrix(rec["dist"]), "where": "inside"})
        return traces
    finally:
        kk.netlist_to_matrix, kk.get_all_shortest_path_lengths, kk.Model = orig


def run_case(case):
    if case["kind"] == "graph":
        return [(observe_setup(case), ["-"])]
    found: dict[str, list] = {}
    for en in case["embs"]:
        res = observe_run(case, en)
        for t in (res if isinstance(res, list) else [res]):
            k = json.dumps(t, sort_keys=True)
            found.setdefault(k, [t, []])[1].append(en)
    return list(found.values())


# ------------------------------------------------------------------------------------------ cases
def layout_case(lay, graph, k):
    """an emitted layout (kinds, centres on a 10x10 die) with the nets of an emitted graph of the same size"""
    mods = []
    for j, (kd, p) in enumerate(zip(lay["kinds"], lay["pos0"])):
        x, y = p[0] * KSCALE, p[1] * KSCALE
        m = {"name": f"M{j}", "kind": kd, "p": [x, y]}
        if kd == "soft":
            m["area"] = 16 + 8 * (j % 2)
        if kd in ("hard", "fixed"):
            m["rects"] = [[x - KSCALE, y - KSCALE, x + KSCALE, y + KSCALE]]
        mods.append(m)
    return {"kind": "layout", "W": lay["W"] * KSCALE, "H": lay["H"] * KSCALE, "mods": mods, "nets": graph["nets"],
            "origin": "tlc", "max_iter": 150}


def random_cases(rng: random.Random, n: int) -> list[dict]:
    """5-8 modules on a 40x30 die: every kind, coincident and border centres, hyperedges up to 5 pins, weights,
    several nets on the same pair, disconnected parts and isolated modules; every third netlist is a chain or ring"""
    cases = []
    ws = [[1, 1], [5, 2], [3, 1], [1, 2]]
    for i in range(n):
        nm = rng.randint(5, 8)
        W, H = 40, 30
        mods, used = [], []
        for j in range(nm):
            kd = rng.choice(["soft", "soft", "soft", "hard", "term", "fixed", "fterm"])
            if j == 0:
                kd = "soft"
            if kd in ("hard", "fixed"):
                for _try in range(30):
                    x, y = 2 * rng.randint(1, W // 2 - 1), 2 * rng.randint(1, H // 2 - 1)
                    if all(abs(x - a) >= 4 or abs(y - b) >= 4 for a, b in used):
                        break
                else:
                    kd = "soft"
            if kd in ("hard", "fixed"):
                used.append((x, y))
                mods.append({"name": f"M{j}", "kind": kd, "p": [x, y], "rects": [[x - 2, y - 2, x + 2, y + 2]]})
                continue
            mode = rng.randrange(6)
            if mode == 0 and mods:
                x, y = mods[rng.randrange(len(mods))]["p"]          # coincident
            elif mode == 1 and kd != "soft":
                x, y = rng.choice([0, W]), rng.randint(0, H)        # terminal on the border
            else:
                x, y = rng.randint(1, W - 1), rng.randint(1, H - 1)
            m = {"name": f"M{j}", "kind": kd, "p": [x, y]}
            if kd == "soft":
                m["area"] = rng.choice([4, 9, 16, 25])
            mods.append(m)
        nets = []
        reach = list(range(1, nm + 1))
        if rng.random() < 0.3:
            reach = reach[:-1]                                      # an isolated module
        if i % 3 == 0:
            # a chain (sometimes closed to a ring) through the modules in random order, the nets listed in random
            # order: shortest paths of many edges
            order = reach[:]
            rng.shuffle(order)
            nets = [{"pins": sorted(order[j:j + 2]), "w": rng.choice(ws)} for j in range(len(order) - 1)]
            if rng.random() < 0.5 and len(order) > 2:
                nets.append({"pins": sorted([order[0], order[-1]]), "w": [3, 1]})
            rng.shuffle(nets)
        else:
            for _e in range(rng.randint(1, 6)):
                k = min(len(reach), rng.choice([2, 2, 2, 3, 4, 5]))
                pins = sorted(rng.sample(reach, k))
                w = rng.choice(ws)
                if (2 * w[0] * Q) % (w[1] * k) == 0:
                    nets.append({"pins": pins, "w": w})
        cases.append({"kind": "layout", "W": W, "H": H, "mods": mods, "nets": nets, "origin": "random", "max_iter": 150})
        cases.append({"kind": "graph", "n": nm, "nets": nets, "origin": "random"})
    return cases


# ------------------------------------------------------------------------------------------ judging
def decide(ctx: Ctx, cases: list[dict]):
    prepare_imports()
    import numpy  # noqa: F401
    import gekko  # noqa: F401
    import frame.die.die  # noqa: F401
    import tools.force.kamada_kawai  # noqa: F401    (imported in the parent, used only in forked children)
    st = ctx.extra.setdefault("observed", {"setup_direct": 0, "setup_inside": 0, "runs": 0, "returned": 0, "moved": 0,
                                           "no_solution": 0, "rejected_inputs": 0, "nonzero_diagonal": 0})
    results = run_cases(run_case, cases, nproc=16, case_timeout=600)
    traces, meta = [], {}
    for c, (status, val) in zip(cases, results):
        if status != "ok":
            ctx.violation("no_result", {"case": c, "status": status}, {"status": status}, {"kind": c["kind"]})
            continue
        for t, embs in val:
            if "rejected" in t:
                st["rejected_inputs"] += 1
                continue
            if "exc" in t:
                ctx.violation("raises", {"case": c}, t, {"kind": c["kind"]})
                continue
            ctx.count(n=len(embs) * (2 if t["kind"] == "run" else 1))
            if t["kind"] == "setup":
                st["setup_" + t["where"]] += 1
                st["nonzero_diagonal"] += any(t["dist"][i][i] != 0 for i in range(t["n"]))
            else:
                st["runs"] += len(embs)
                st["returned"] += t["ret"] == 1
                st["moved"] += t.get("moved", 0)
                st["no_solution"] += t["ret"] == 0
            t = dict(t)
            t["id"] = f"{len(traces)}-{digest(t)}"
            traces.append(t)
            meta[t["id"]] = (c, embs)
    verdicts = tlc.validate_traces(ctx, "KamadaKawaiTrace", "KamadaKawaiTrace", traces, chunk=3000)
    for t in traces:
        v = verdicts[t["id"]]
        c, embs = meta[t["id"]]
        if t["kind"] == "setup":
            ctx.count(digest([t["n"], t["nets"]]), nontrivial=len(t["nets"]) >= 1, n=0)
        else:
            ctx.count(digest([c["mods"], c["nets"]]), nontrivial=t["ret"] == 1 and t.get("moved", 0) == 1, n=0)
        failed = {cl for (_l, cl) in v["fails"]}
        drifted = {d for (_l, d) in v["drift"]}
        for (_l, clause) in v["fails"]:
            if t["kind"] == "setup":
                case = {"kind": "graph", "n": t["n"], "nets": t["nets"]}
                detail = {"graph": t["graph"], "dist": t["dist"], "where": t["where"]}
                # features for known-finding matching, taken from TLC's own verdict on this trace: do all the other
                # clauses hold (the matrices are right between different modules), and are the distances exactly what
                # the specification computes for the code as written (infinite start diagonal)?
                feats = {"kind": "setup", "nets": len(t["nets"]),
                         "only_diagonal": failed <= {"dist_zero_diagonal", "diameter"},
                         "as_coded": "distances_differ_from_both_models" not in drifted}
            else:
                case = {k: c[k] for k in ("kind", "W", "H", "mods", "nets", "max_iter")}
                case["embs"] = embs
                detail = {k: t[k] for k in ("ret", "why", "p0", "fin", "ok", "fx") if k in t}
                feats = {"kind": "run", "embedding": embs[0], "exception": t.get("exception", ""),
                         "movable": sum(1 - x for x in t["fx"])}
            ctx.violation(clause, case, detail, feats)
        for (_l, what) in v["drift"]:
            if not v["fails"]:
                ctx.model_drift(f"{t['kind']}: {what}")
    for t in traces[:1] + [x for x in traces if x["kind"] == "run"][:2]:
        ctx.sample({k: t[k] for k in t if k not in ("sig0", "sig1", "id")})


def run(ctx: Ctx) -> int:
    if ctx.replay:
        rec = json.load(open(ctx.replay))
        decide(ctx, [rec["case"]])
        return ctx.finish("model_checking", "replay of one recorded case")
    tier = ctx.tier
    tlc.model_check(ctx, "KamadaKawai", f"KamadaKawai_mc_{tier}", vacuity_ignore=("EmitGraph", "EmitLayout"))
    if tier == "thorough":
        tlc.model_check(ctx, "KamadaKawai", "KamadaKawai_mc_deep", coverage=False)
    printed = tlc.generate(ctx, "KamadaKawai", f"KamadaKawai_gen_{tier}")
    if tier == "thorough":      # netlists of three nets (chains of three edges, nets overwritten twice)
        printed += [c for c in tlc.generate(ctx, "KamadaKawai", "KamadaKawai_gen_deep") if c["kind"] == "graph"]
    graphs = [c for c in printed if c["kind"] == "graph"]
    layouts = [c for c in printed if c["kind"] == "layout"]
    rng = random.Random(ctx.seed * 1000003 + 77)
    nm = len(layouts[0]["kinds"]) if layouts else 0
    same_size = [g for g in graphs if g["n"] == nm]
    nruns = 160 if tier == "quick" else 1500
    picked = rng.sample(layouts, min(nruns, len(layouts)))
    floats = ["flt", "half", "dec", "third", "big", "tiny"]
    cases = [dict(g, origin="tlc") for g in graphs]
    for k, lay in enumerate(picked):
        c = layout_case(lay, same_size[(k * 7) % len(same_size)], k)
        c["embs"] = ["int" if k % 3 == 0 else floats[k % len(floats)]]
        cases.append(c)
    for c in random_cases(rng, 40 if tier == "quick" else 400):
        if c["kind"] == "layout":
            c["embs"] = [floats[len(cases) % len(floats)]]
        cases.append(c)
    decide(ctx, cases)
    st = ctx.extra["observed"]
    if min(st["setup_direct"], st["setup_inside"], st["returned"], st["moved"]) == 0:
        raise MachineryError(f"vacuous run: {st}")
    ctx.extra["embeddings"] = ORIGIN0
    ctx.extra["cases"] = {"tlc_graphs": len(graphs), "tlc_layouts_emitted": len(layouts), "tlc_layouts_run": len(picked)}
    ctx.assumptions += [
        "the solver is outside the model: any centres within the bounds Model declares are a behaviour of the contract; runs in which "
        "GEKKO reports that no solution was found are counted (observed.no_solution), not judged",
        "graphs: every netlist of the bounded universe goes through the two real matrix functions; layouts: a seeded sample of the emitted "
        "layouts is run (each with the nets of an emitted graph of the same size), one float embedding per run, origin-0 embeddings only",
        "'inside the die' and bounds are judged to 1e-6 of the larger die side (IPOPT relaxes bounds by 1e-8); 'not moved' exactly",
        "matrix entries are compared exactly in 1/60 units (weights 1, 5/2, 3, 1/2; nets of up to 6 pins)",
    ]
    return ctx.finish(
        "model_checking",
        "TLC enumerates every netlist (graph machine) and every kinds x centres placement (layout machine) of the bounded universe; "
        "evaluations = real calls (matrix pairs, layout executions); distinct = distinct netlists and distinct (modules, nets) inputs "
        "judged by TLC; non-trivial = netlists with at least one net, runs that returned and moved something",
        exhaustive=False)
