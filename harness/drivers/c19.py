"""C19 -- every document FRAME produces is accepted back and says the same thing; producing never alters the object.

TLC (Docs) enumerates small objects -- dies, allocations, generator topologies and sizes, FloorSet instances,
netlists with solutions, netlists for the legaliser -- proves for the INTENDED writers that the document is accepted,
reads back as the same design and repeats, that the generator's documents are accepted exactly for the Defined
sizes, and emits every object.  The harness builds the real object under the float embeddings of harness/lattice.py,
calls the real producer TWICE and gives the first document to the real reader:

  die            Die(text) [, split_refinable_regions]  -> write_yaml x2            -> Die
  alloc          Allocation(text) [, refine | griddify | uniform_refinement_depth] -> write_yaml x2 -> Allocation
  netgen         tools.netgen.netgen.main(--type --size -o file) x2                -> Netlist(file)
  floorset_fpef  FloorSetInstance(numpy data traced from the block polygons)       -> write_yaml_FPEF x2 -> Netlist
  floorset_dief  the same instance                                                 -> write_yaml_DIEF x2 -> Die
  rect_netlist   rect_io.get_netlist(None, allocation file) x2                     (returns the Netlist it built)
  rect_solution  rect_io.solution_to_netlist(Netlist, result) x2                   -> Netlist
  legal          legalfloor.Model (built as the stage does, not solved) .get_netlist() x2 (returns the Netlist)

What the real objects look like through their accessors before / after the calls, the two documents (digests) and
the object the reader built are pulled back to integers (1/1000 lattice units) and judged by TLC (DocsTrace):
accepted, same_design / same_modules / same_nets, unaltered, repeat.  A seeded random driver adds larger objects
(long generator sizes, refined allocations, FloorSet instances with more blocks, netlists with more modules and nets).
"""
from __future__ import annotations

import contextlib
import io
import json
import os
import random
import shutil
import tempfile

from ..core import Ctx, MachineryError, digest
from ..forkpool import prepare_imports, run_cases
from fractions import Fraction as F

from ..lattice import ALL as _ALL8, EMBEDDINGS as _EMB, ORIGIN0 as _ORIGIN0, Emb
# + mega (step 1234567.8): large inexact coordinates on every path that loads rectangles through Netlist / Die
ALL = list(_ALL8) + ["mega"]
ORIGIN0 = list(_ORIGIN0) + ["mega"]
from .. import tlc
from .c15 import trace_outline

K = 1000
# designs in very small units for the string-built netlists of the rect / legaliser stages: 1e-6 ("micro", decimal) and
# 1e-6 / 3 (every coordinate needs all its digits): a writer that keeps a fixed number of DECIMALS loses the design
EMBEDDINGS = dict(_EMB, micro3=Emb("micro3", F(1, 3 * 10 ** 6)))
SMALL = ["micro", "micro3"]
DEN = 4
EVENTS_PER_TRACE = 30
# legaliser: the die origin is (0,0) and the system has absolute tolerances (see c09): units >= ~1
LEGAL_EMBS = ["int", "flt", "half", "dec", "third", "big"]
NO_DIE = {"w": 0, "h": 0, "regs": []}
NO_NET = {"mods": [], "nets": []}


# ----------------------------------------------------------------------------------------- pulling back
class Pull:
    """floats of an embedding -> integers in 1/K lattice units"""

    def __init__(self, emb):
        self.o, self.s = float(emb.off), float(emb.step)

    def coord(self, v):
        return round((float(v) - self.o) / self.s * K)

    def length(self, v):
        return round(float(v) / self.s * K)

    def area(self, v):
        return round(float(v) / self.s / self.s * K)

    def rect(self, r):
        c, sh = r.center, r.shape
        return [self.coord(c.x - sh.w / 2), self.coord(c.y - sh.h / 2), self.coord(c.x + sh.w / 2), self.coord(c.y + sh.h / 2)]


def obs_die(d, pb):
    return {"w": pb.length(d.width), "h": pb.length(d.height),
            "regs": [pb.rect(r) + [r.region] for r in d.blockages + d.specialized_regions]}


def obs_alloc(a, pb):
    return [{"r": pb.rect(c.rect), "tag": c.rect.region, "depth": int(c.depth),
             "ratio": [[m, round(float(v) * K)] for m, v in c.alloc.items()]} for c in a.allocations]


def obs_netlist(n, pb):
    mods = []
    for m in n.modules:
        mods.append({"name": m.name, "kind": [int(m.is_hard), int(m.is_fixed), int(m.is_terminal), int(bool(m.flip))],
                     "area": pb.area(m.area()),
                     "center": [] if m.center is None else [pb.coord(m.center.x), pb.coord(m.center.y)],
                     "rects": [pb.rect(r) + [r.region] for r in m.rectangles]})
    nets = [{"pins": [x.name for x in e.modules], "w": round(float(e.weight) * K)} for e in n.edges]
    return {"mods": mods, "nets": nets}


def fresh():
    """the reader (and every first load) runs as in a process that has not seen a design yet"""
    from frame.geometry.geometry import Rectangle
    Rectangle.undefine_epsilon()


def num(v):
    return repr(v)


# ----------------------------------------------------------------------------------------- source documents
def die_text(o, emb):
    lines = [f"width: {num(emb.length(o['w']))}", f"height: {num(emb.length(o['h']))}"]
    if o["regs"]:
        rs = ", ".join("[" + ", ".join(num(v) for v in emb.rect(t)) + f", '{t[4]}']" for t in o["regs"])
        lines.append(f"regions: [{rs}]")
    return "\n".join(lines) + "\n"


def alloc_text(o, emb):
    rows = []
    for c in o:
        r = ", ".join(num(v) for v in emb.rect(c))
        if c[4] != "_":
            r += f", {c[4]}"
        al = ", ".join(f"{m}: {num(k / DEN)}" for m, k in c[6])
        rows.append(f"[[{r}], {{{al}}}" + (f", {c[5]}]" if c[5] > 0 else "]"))
    return "[" + ",\n ".join(rows) + "]\n"


def netlist_text(n, emb):
    """FPEF text of an abstract netlist (module Docs): what a design file says, in the library writer's vocabulary"""
    out = ["Modules: {"]
    for i, m in enumerate(n["mods"]):
        hard, fixed, term, flip = m["kind"]
        attrs = []
        if not hard:
            attrs.append(f"area: {num(emb.area(m['area'][0]) / m['area'][1])}")
        if m["center"] and (not hard or term):
            xn, yn, d = m["center"]
            from fractions import Fraction as F
            attrs.append(f"center: [{num(emb.coord(F(xn, d)))}, {num(emb.coord(F(yn, d)))}]")
        if term:
            attrs.append("terminal: true")
        if fixed:
            attrs.append("fixed: true")          # (a fixed pin says both)
        elif hard and not term:
            attrs.append("hard: true")
        if flip:
            attrs.append("flip: true")
        if m["rects"]:
            rs = ", ".join("[" + ", ".join(num(v) for v in emb.rect(t)) + (f", {t[4]}" if t[4] != "_" else "") + "]"
                           for t in m["rects"])
            attrs.append(f"rectangles: [{rs}]")
        out.append(f"  {m['name']}: {{ {', '.join(attrs)} }}" + ("," if i + 1 < len(n["mods"]) else ""))
    out.append("}")
    nets = []
    for e in n["nets"]:
        w = e["w"][0] / e["w"][1]
        nets.append("[" + ", ".join(e["pins"]) + ("" if w == 1 else f", {num(w)}") + "]")
    out.append("Nets: [" + ", ".join(nets) + "]")
    return "\n".join(out) + "\n"


# ----------------------------------------------------------------------------------------- producers
def as_file(text):
    """Documents travel between the stages as files (and read_yaml takes a string without ': ' for a file name)."""
    fd, path = tempfile.mkstemp(suffix=".yaml")
    with os.fdopen(fd, "w") as f:
        f.write(text)
    return path


def _read(reader, doc, observe, empty):
    """give a document (text) to its reader, as a file -> (accepted, observation, why)"""
    fresh()
    path = as_file(doc)
    try:
        obj = reader(path)
    except Exception as e:
        return 0, empty, f"{type(e).__name__}: {e}"[:200]
    finally:
        os.remove(path)
    return 1, observe(obj), ""


def pair(a, b):
    """two documents / two states as comparable tokens that do not depend on the embedding"""
    return ("x", "x") if a == b else ("x", "y")


def run_die(case, emb, pb):
    from frame.die.die import Die
    fresh()
    src = as_file(die_text(case["src"], emb))
    try:
        d = Die(src)
    finally:
        os.remove(src)
    if case["op"] == "split" and d.specialized_regions + d.ground_regions:     # (needs something to split)
        import zlib
        if zlib.crc32(repr(case["src"]).encode()) % 2:
            d.write_yaml()      # every second die is also written BEFORE the refinement (the document is discarded):
                                # what is written afterwards must still describe the die as it is then
        d.split_refinable_regions(2.0, 4)
    pre = obs_die(d, pb)
    t1 = d.write_yaml()
    t2 = d.write_yaml()
    post = obs_die(d, pb)
    acc, back, why = _read(Die, t1, lambda x: obs_die(x, pb), NO_DIE)
    d1, d2 = pair(t1, t2)
    return {"pre": pre, "post": post, "d1": d1, "d2": d2, "accepted": acc, "back": back, "why": why}


def run_alloc(case, emb, pb):
    from frame.allocation.allocation import Allocation
    fresh()
    src = as_file(alloc_text(case["src"], emb))
    try:
        a = Allocation(src)
    finally:
        os.remove(src)
    for op in case["op"].split("+"):
        if op == "refine":
            a = a.refine(0.6, 1)
        elif op == "griddify":
            a = a.griddify()
        elif op == "uniform":
            a = a.uniform_refinement_depth()
    pre = obs_alloc(a, pb)
    t1 = a.write_yaml()
    t2 = a.write_yaml()
    post = obs_alloc(a, pb)
    acc, back, why = _read(Allocation, t1, lambda x: obs_alloc(x, pb), [])
    d1, d2 = pair(t1, t2)
    return {"pre": pre, "post": post, "d1": d1, "d2": d2, "accepted": acc, "back": back, "why": why}


def run_netgen(case, emb, pb):
    from frame.netlist.netlist import Netlist
    from tools.netgen import netgen
    typ, size = case["src"]
    texts = []
    tmp = tempfile.mkdtemp(prefix="ng")
    try:
        for k in (1, 2):
            path = os.path.join(tmp, f"n{k}.yaml")
            with contextlib.redirect_stdout(io.StringIO()):
                netgen.main("netgen", ["--type", typ, "--size"] + [str(s) for s in size] + ["-o", path])
            texts.append(open(path).read())
        acc, back, why = _read(Netlist, texts[0], lambda x: obs_netlist(x, pb), NO_NET)
    finally:
        shutil.rmtree(tmp, ignore_errors=True)
    d1, d2 = pair(texts[0], texts[1])
    return {"pre": "s", "post": "s", "d1": d1, "d2": d2, "accepted": acc, "back": back, "why": why}


def _outline(shape):
    """vertex list (lattice coordinates, counter-clockwise) of the union of the rectangles of a block"""
    x0, y0 = min(t[0] for t in shape), min(t[1] for t in shape)
    x1, y1 = max(t[2] for t in shape), max(t[3] for t in shape)
    grid = [[int(any(t[0] <= x < t[2] and t[1] <= y < t[3] for t in shape)) for x in range(x0, x1)]
            for y in range(y1 - 1, y0 - 1, -1)]
    loop = trace_outline(grid)
    if loop is None:
        raise MachineryError(f"block shape is not one simple polygon: {shape}")
    return [(x0 + ix, y0 + iy) for ix, iy in loop]


def floorset_data(inst, emb, salt=0):
    import numpy as np
    polys = []
    for bi, b in enumerate(inst["blocks"]):
        v = _outline(b["shape"])
        if (bi + salt) % 2:
            v = v[::-1]                 # either orientation
        k = (bi + salt) % len(v)
        v = v[k:] + v[:k]
        # with a density the perimeters are measured (compute_perimeter sums consecutive edges): the polygons are then given
        # closed (first vertex repeated) and, all of the same shape, without padding rows
        polys.append(v + [v[0]] if inst.get("dens") else v)
    width = max(len(v) for v in polys) + (0 if inst.get("dens") else 1)
    vb = np.full((len(polys), width, 2), -1.0)
    for i, v in enumerate(polys):
        vb[i, :len(v)] = [(emb.coord(x), emb.coord(y)) for x, y in v]
    cons = np.zeros((len(polys), 5))
    for i, b in enumerate(inst["blocks"]):
        if b["kind"] == "hard":
            cons[i, 0] = 1
        elif b["kind"] == "fixed":
            cons[i, 1] = 1
    return {"area_blocks": np.array([float(emb.area(b["area"])) for b in inst["blocks"]]),
            "b2b_connectivity": np.array([[float(a), float(b), w[0] / w[1]] for a, b, w in inst["b2b"]]).reshape(-1, 3),
            "p2b_connectivity": np.array([[float(a), float(b), w[0] / w[1]] for a, b, w in inst["p2b"]]).reshape(-1, 3),
            "pins_pos": np.array([[float(emb.coord(x)), float(emb.coord(y))] for x, y in inst["pins"]]),
            "placement_constraints": cons, "vertex_blocks": vb, "b_tree": np.array([]),
            "metrics": np.array([0.0, float(len(inst["pins"])), 0.0, 0.0])}


def _fs_state(fs):
    return digest([repr(fs.modules), [[list(e.modules), float(e.weight)] for e in fs.nets], repr(fs.shape)])


def run_floorset(case, emb, pb):
    from frame.die.die import Die
    from frame.netlist.netlist import Netlist
    from tools.floorset_parser.floor_set_manager.manager import FloorSetInstance
    dens = case["src"].get("dens")
    fs = FloorSetInstance(floorset_data(case["src"], emb, case.get("salt", 0)), dens[0] / dens[1] if dens else None, False)
    pre = _fs_state(fs)
    if case["prod"] == "floorset_fpef":
        t1 = fs.write_yaml_FPEF()
        t2 = fs.write_yaml_FPEF()
        post = _fs_state(fs)
        acc, back, why = _read(Netlist, t1, lambda x: obs_netlist(x, pb), NO_NET)
    else:
        t1 = fs.write_yaml_DIEF()
        t2 = fs.write_yaml_DIEF()
        post = _fs_state(fs)
        acc, back, why = _read(Die, t1, lambda x: obs_die(x, pb), NO_DIE)
    d1, d2 = pair(t1, t2)
    pre, post = pair(pre, post)
    # the scaling factor of a density is a length: the expected weights depend on the unit of the embedding
    unit = [emb.step.numerator, emb.step.denominator] if dens else [1, 1]
    return {"pre": pre, "post": post, "d1": d1, "d2": d2, "accepted": acc, "back": back, "why": why, "unit": unit}


def run_rect_netlist(case, emb, pb):
    from tools.rect.rect_io import get_netlist
    tmp = tempfile.mkdtemp(prefix="ra")
    try:
        path = os.path.join(tmp, "alloc.yaml")
        text = alloc_text(case["src"], emb)
        with open(path, "w") as f:
            f.write(text)
        obs, why = [], ""
        for _k in (1, 2):
            fresh()
            try:
                obs.append(obs_netlist(get_netlist(None, path), pb))
            except Exception as e:     # the function reads its own document: a refusal surfaces as its exception
                obs.append(None)
                why = f"{type(e).__name__}: {e}"[:200]
        post = open(path).read()
    finally:
        shutil.rmtree(tmp, ignore_errors=True)
    acc = int(obs[0] is not None)
    d1, d2 = pair(obs[0], obs[1])
    pre, post = pair(text, post)
    return {"pre": pre, "post": post, "d1": d1, "d2": d2, "accepted": acc, "back": obs[0] if acc else NO_NET, "why": why}


def run_rect_solution(case, emb, pb):
    from frame.netlist.netlist import Netlist
    from tools.rect.rect_io import solution_to_netlist
    fresh()
    src = as_file(netlist_text(case["src"]["net"], emb))
    try:
        n = Netlist(src)
    finally:
        os.remove(src)
    result = {name: [tuple(float(v) for v in emb.rect(t)) for t in rects] for name, rects in case["src"]["result"]}

    def state():
        return digest([obs_netlist(n, pb), {k: [list(b) for b in v] for k, v in result.items()}])
    pre = state()
    t1 = solution_to_netlist(n, result)
    t2 = solution_to_netlist(n, result)
    post = state()
    acc, back, why = _read(Netlist, t1, lambda x: obs_netlist(x, pb), NO_NET)
    d1, d2 = pair(t1, t2)
    pre, post = pair(pre, post)
    return {"pre": pre, "post": post, "d1": d1, "d2": d2, "accepted": acc, "back": back, "why": why}


def run_legal(case, emb, pb):
    from frame.netlist.netlist import Netlist
    from tools.legalfloor import legalfloor as lf
    from tools.legalfloor import expression_tree as et
    fresh()
    et.named_variables.clear()
    et.debug_print = 0xFF
    tmp = tempfile.mkdtemp(prefix="gk")
    old = tempfile.tempdir
    tempfile.tempdir = tmp
    try:
        with contextlib.redirect_stdout(io.StringIO()):
            n = Netlist(netlist_text(case["src"], emb))
            ml, al, xl, yl, wl, hl, hyper, names = lf.netlist_to_utils(n)
            model = lf.Model(ml, al, xl, yl, wl, hl, float(emb.length(case.get("dw", 8))), float(emb.length(case.get("dh", 6))),
                             hyper, 3.0, names, 0.9, 0.3, 1)

            def state():
                return digest([list(model.og_names), [float(a) for a in model.og_area],
                               [[float(w), list(c)] for w, c in model.hyper],
                               [[[float(v.evaluate()) for v in q] for q in (mm.x, mm.y, mm.w, mm.h)] for mm in model.M]])
            pre = state()
            obs, why = [], ""
            for _k in (1, 2):
                fresh()
                try:
                    obs.append(obs_netlist(model.get_netlist(), pb))
                except Exception as e:
                    obs.append(None)
                    why = f"{type(e).__name__}: {e}"[:200]
            post = state()
    finally:
        tempfile.tempdir = old
        shutil.rmtree(tmp, ignore_errors=True)
    acc = int(obs[0] is not None)
    d1, d2 = pair(obs[0], obs[1])
    pre, post = pair(pre, post)
    return {"pre": pre, "post": post, "d1": d1, "d2": d2, "accepted": acc, "back": obs[0] if acc else NO_NET, "why": why}


# ----------------------------------------------------------------------------------------- same-path histories
def run_store(case, emb, pb):
    """One same-path history inside this process: the real producer writes the current object to the named path,
    the object changes, the path is written again, the real reader reads it.  Every producer is used through its
    own file-name interface.  -> the operations with what every read observed"""
    from frame.allocation.allocation import Allocation
    from frame.die.die import Die
    from frame.netlist.netlist import Netlist
    p = case["producer"]
    # legal oddities in the names: blanks, dots, a non-ASCII letter, a leading digit, 'x' between numbers
    tmp = tempfile.mkdtemp(prefix="frame designs \u00e9 v1.2 ")
    paths = {"P": os.path.join(tmp, "30x20 die.rev2.yaml"), "Q": os.path.join(tmp, "7th netlist (final).yaml")}
    cur = 0
    out = []

    def write(path):
        o = case["objs"][cur]
        fresh()
        if p == "die":
            src = as_file(die_text(o, emb))
            try:
                Die(src).write_yaml(path)
            finally:
                os.remove(src)
        elif p == "alloc":
            src = as_file(alloc_text(o, emb))
            try:
                Allocation(src).write_yaml(path)
            finally:
                os.remove(src)
        elif p == "netgen":
            from tools.netgen import netgen
            with contextlib.redirect_stdout(io.StringIO()):
                netgen.main("netgen", ["--type", o[0], "--size"] + [str(v) for v in o[1]] + ["-o", path])
        elif p == "floorset_fpef":
            from tools.floorset_parser.floor_set_manager.manager import FloorSetInstance
            FloorSetInstance(floorset_data(o, emb, 0), None, False).write_yaml_FPEF(path)
        elif p == "rect_netlist":
            with open(path, "w") as f:             # the allocation the previous stage writes for the rect stage
                f.write(alloc_text(o, emb))
        elif p == "rect_solution":
            from tools.rect.rect_io import solution_to_netlist
            src = as_file(netlist_text(o["net"], emb))
            try:
                n = Netlist(src)
            finally:
                os.remove(src)
            result = {name: [tuple(float(v) for v in emb.rect(t)) for t in rects] for name, rects in o["result"]}
            with open(path, "w") as f:             # as rect.py does with --file
                f.write(solution_to_netlist(n, result))
        else:
            raise MachineryError(f"no same-path binding for {p}")

    def read(path):
        fresh()
        try:
            if p == "die":
                return 1, obs_die(Die(path), pb), ""
            if p == "alloc":
                return 1, obs_alloc(Allocation(path), pb), ""
            if p == "rect_netlist":
                from tools.rect.rect_io import get_netlist
                return 1, obs_netlist(get_netlist(None, path), pb), ""
            return 1, obs_netlist(Netlist(path), pb), ""
        except Exception as e:
            empty = NO_DIE if p == "die" else [] if p == "alloc" else NO_NET
            return 0, empty, f"{type(e).__name__}: {e}"[:200]

    try:
        for op in case["ops"]:
            if op["op"] == "write":
                write(paths[op["path"]])
                out.append({"op": "write", "path": op["path"]})
            elif op["op"] == "change":
                cur = (cur + 1) % len(case["objs"])
                out.append({"op": "change", "to": cur + 1})
            else:
                acc, back, why = read(paths[op["path"]])
                out.append({"op": "read", "path": op["path"], "accepted": acc, "back": back, "why": why})
    finally:
        shutil.rmtree(tmp, ignore_errors=True)
    return {"store": out}


RUNNERS = {"store": run_store, "die": run_die, "alloc": run_alloc, "netgen": run_netgen, "floorset_fpef": run_floorset,
           "floorset_dief": run_floorset, "rect_netlist": run_rect_netlist, "rect_solution": run_rect_solution,
           "legal": run_legal}


def embeddings_for(case, k):
    p = case["prod"]
    if p == "store":
        p = case["producer"]
        if p == "netgen":
            return ["flt"]
        pool = ORIGIN0 if p in ("die", "floorset_fpef") else ALL
        return [pool[k % len(pool)]]
    if p == "netgen":
        return ["flt"]                                # the generator has no coordinates (every area is 1)
    if p.startswith("floorset") and case["src"].get("dens"):
        pool = ["int", "flt", "half", "dec", "third"]  # scaled weights are lengths: units in which 1/K still resolves them
    elif p in ("die", "floorset_fpef", "floorset_dief"):
        pool = ORIGIN0                                # the die starts at the origin
    elif p == "legal":
        pool = LEGAL_EMBS + SMALL
    elif p in ("rect_solution", "rect_netlist"):
        pool = ALL + SMALL
    else:
        pool = ALL
    n = case.get("nemb", 2)
    return [pool[(k + j * 3) % len(pool)] for j in range(n)] if n < len(pool) else list(pool)


def run_case(case):
    """-> list of (event, [embeddings]) ; an exception of the producer itself is reported as such"""
    found: dict[str, list] = {}
    for en in case["embs"]:
        emb = EMBEDDINGS[en]
        try:
            o = RUNNERS[case["prod"]](case, emb, Pull(emb))
        except MachineryError:
            raise
        except Exception as e:      # building the object from an in-quantifier description, or producing, failed
            import traceback
            o = {"exc": f"{type(e).__name__}: {e}"[:300], "where": traceback.format_exc()[-400:]}
        k = json.dumps(o, sort_keys=True)
        found.setdefault(k, [o, []])[1].append(en)
    return list(found.values())


# ----------------------------------------------------------------------------------------- random cases
def random_cases(rng: random.Random, n: int) -> list[dict]:
    cat = _catalogue()
    cases = []
    for i in range(n):
        kind = i % 6
        if kind == 0:       # long generator sizes
            t = rng.choice(["chain", "ring", "star", "ring-star", "one-net", "grid", "htree"])
            size = [rng.randint(5, 8), rng.randint(5, 8)] if t == "grid" else [4] if t == "htree" else [rng.randint(9, 40)]
            cases.append({"prod": "netgen", "src": [t, size], "op": "none"})
        elif kind == 1:     # allocations on a larger area, refined several times
            cells, x = [], 0
            for _c in range(rng.randint(2, 5)):
                w = rng.choice([2, 4, 8])
                names = rng.sample(["A", "B", "C", "D"], rng.randint(0, 3))
                cells.append([x, 0, x + w, rng.choice([4, 8]), rng.choice(["_", "dsp", "bram"]), rng.randint(0, 2),
                              [[m, rng.randint(0, 4)] for m in names]])
                x += w
            ops = "+".join(rng.choice(["refine", "griddify", "uniform"]) for _o in range(rng.randint(1, 3)))
            cases.append({"prod": "alloc", "src": cells, "op": ops})
            if any(c[6] for c in cells) and all(k > 0 for c in cells for _m, k in c[6]):
                cases.append({"prod": "rect_netlist", "src": [c[:5] + [0, c[6]] for c in cells], "op": "none"})
        elif kind == 2:     # dies with more regions
            W, H = rng.randint(6, 12), rng.randint(6, 12)
            regs, x = [], 0
            while x < W - 1 and len(regs) < 4:
                w = rng.randint(1, 3)
                if x + w > W:
                    break
                y = rng.randint(0, H - 2)
                regs.append([x, y, x + w, rng.randint(y + 1, H), rng.choice(["#", "dsp", "bram"])])
                x += w + rng.randint(0, 2)
            rng.shuffle(regs)
            cases.append({"prod": "die", "src": {"w": W, "h": H, "regs": regs}, "op": rng.choice(["none", "split"])})
        elif kind == 3:     # FloorSet instances with more blocks
            shapes = [[[0, 0, 2, 2]], [[0, 0, 2, 2], [2, 0, 3, 1]], [[0, 1, 3, 2], [1, 2, 2, 3], [1, 0, 2, 1]],
                      [[0, 0, 3, 1], [0, 1, 1, 3], [2, 1, 3, 2]], [[1, 0, 3, 2], [0, 0, 1, 1], [1, 2, 2, 4]]]
            nb = rng.randint(3, 5)
            blocks = []
            for b in range(nb):
                sh = [[t[0] + 4 * b, t[1], t[2] + 4 * b, t[3]] for t in rng.choice(shapes)]
                blocks.append({"kind": rng.choice(["soft", "hard", "fixed"]), "area": sum((t[2] - t[0]) * (t[3] - t[1]) for t in sh),
                               "shape": sh})
            pins = [[4 * nb, 6]] + [[rng.randint(0, 4 * nb), rng.choice([0, 6])] for _p in range(rng.randint(1, 3))]
            ws = [[1, 1], [5, 2], [3, 1], [1, 2], [0, 1]]        # rows of weight 0 in both tables (-> nets of weight 1)
            b2b = [[a, b, rng.choice(ws)] for a in range(nb) for b in range(nb) if a != b and rng.random() < 0.3]
            p2b = [[p, rng.randrange(nb), rng.choice(ws)] for p in range(len(pins))]
            p2b[0][2] = rng.choice(ws[:4])                       # (some weight stays positive)
            if rng.random() < 0.5:
                p2b.append([rng.randrange(len(pins)), rng.randrange(nb), [0, 1]])
            dens = []
            if i % 12 == 3:                                      # density scaling: blocks of one shape (no padding rows)
                s0 = rng.choice(shapes)
                for b, blk in enumerate(blocks):
                    blk["shape"] = [[t[0] + 4 * b, t[1], t[2] + 4 * b, t[3]] for t in s0]
                    blk["area"] = sum((t[2] - t[0]) * (t[3] - t[1]) for t in s0)
                dens = rng.choice([[1, 2], [1, 4], [1, 1]])
            inst = {"pins": pins, "blocks": blocks, "b2b": b2b, "p2b": p2b, "dens": dens, "unit": [1, 1]}
            cases.append({"prod": "floorset_fpef", "src": inst, "op": "none", "salt": i})
            cases.append({"prod": "floorset_dief", "src": inst, "op": "none", "salt": i})
        else:               # netlists with more modules and nets for the rect / legaliser stages
            legal = kind == 5
            pool = [m for m in cat if m["rects"]] if legal else cat
            picked = rng.sample(pool, rng.randint(3, min(6, len(pool))))
            names = [m["name"] for m in picked]
            nets = []
            for _e in range(rng.randint(1, 4)):
                pins = rng.sample(names, rng.randint(2, min(4, len(names))))
                nets.append({"pins": pins, "w": rng.choice([[1, 1], [5, 2], [3, 1], [1, 2]])})
            net = {"mods": picked, "nets": nets}
            if legal:
                cases.append({"prod": "legal", "src": net, "op": "none", "dw": 16, "dh": 6})
            else:
                res = [[m["name"], [[0, 0, 2, 2, "_"]]] for m in picked if not m["kind"][0] and not m["rects"]]
                cases.append({"prod": "rect_solution", "src": {"net": net, "result": res if rng.random() < 0.7 else []}, "op": "none"})
    return cases


def _catalogue():
    """the catalogue of module Docs, and the same modules moved 8 units to the right under other names"""
    def mod(n, k, a, c, r):
        return {"name": n, "kind": k, "area": a, "center": c, "rects": r}
    base = [mod("A", [0, 0, 0, 0], [4, 1], [2, 2, 2], []),
            mod("B", [0, 0, 0, 0], [4, 1], [], [[2, 0, 4, 2, "dsp"]]),
            mod("S", [0, 0, 0, 0], [5, 1], [], [[0, 2, 2, 4, "_"], [2, 2, 3, 4, "_"]]),     # declared 5, rectangles cover 6
            mod("H", [1, 0, 0, 0], [0, 1], [], [[4, 0, 6, 2, "_"]]),
            mod("P", [1, 0, 0, 1], [0, 1], [], [[4, 2, 6, 4, "_"], [4, 4, 5, 5, "_"]]),
            mod("F", [1, 1, 0, 0], [0, 1], [], [[6, 0, 8, 2, "_"]]),
            mod("T", [1, 0, 1, 0], [0, 1], [0, 6, 2], []),
            mod("G", [1, 1, 1, 0], [0, 1], [16, 6, 2], [])]
    moved = [mod(m["name"] + "2", m["kind"], m["area"], [m["center"][0] + 16, m["center"][1], 2] if m["center"] else [],
                 [[t[0] + 8, t[1], t[2] + 8, t[3], t[4]] for t in m["rects"]]) for m in base]
    return base + moved


# ----------------------------------------------------------------------------------------- judging
def features_of(case, ev, embs):
    """only used to match known findings (never to judge)"""
    src = case["src"]
    net = src.get("net", src) if isinstance(src, dict) else None
    f = {"prod": case["prod"], "op": case["op"], "embedding": embs[0]}
    if isinstance(net, dict) and "nets" in net:
        f["weighted"] = any(e["w"] != [1, 1] for e in net["nets"])
        f["terminal"] = any(m["kind"][2] for m in net["mods"])
        f["flip"] = any(m["kind"][3] for m in net["mods"])
        f["fixed_terminal"] = any(m["kind"][1] and m["kind"][2] for m in net["mods"])
    if case["prod"].startswith("floorset"):
        f["weighted"] = any(e[2] != [1, 1] for e in src["b2b"] + src["p2b"])
        f["zero_weight"] = any(e[2][0] == 0 for e in src["b2b"] + src["p2b"])
        f["density"] = bool(src.get("dens"))
    return f


def decide(ctx: Ctx, cases: list[dict]):
    prepare_imports()
    import numpy  # noqa: F401
    import frame.allocation.allocation  # noqa: F401
    import tools.netgen.netgen  # noqa: F401
    import tools.floorset_parser.floor_set_manager.manager  # noqa: F401
    import tools.rect.rect_io  # noqa: F401
    import tools.legalfloor.legalfloor  # noqa: F401   (imported in the parent, used only in forked children)
    stats = ctx.extra.setdefault("observed", {})
    results = run_cases(run_case, cases, nproc=16, case_timeout=300)
    events = []          # (event for TLC, case, embeddings)
    stores = []          # (store trace for TLC, case, embeddings, operations with the readers' messages)
    for c, (st, val) in zip(cases, results):
        if st != "ok":
            ctx.violation("no_result", {"case": {k: c[k] for k in ("prod", "src", "op", "producer", "ops") if k in c}, "status": st},
                          {"status": st}, {"prod": c["prod"], "op": c.get("op", "same-path")})
            continue
        for o, embs in val:
            if "store" in o:
                reads = [x for x in o["store"] if x["op"] == "read"]
                ctx.count(n=len(o["store"]) * len(embs))
                s = stats.setdefault("store:" + c["producer"], {"runs": 0, "distinct": 0, "accepted": 0})
                s["runs"] += len(embs)
                s["distinct"] += 1
                s["accepted"] += all(x["accepted"] for x in reads)
                stores.append(({"kind": "store", "producer": c["producer"], "objs": c["objs"],
                                "events": [{k: v for k, v in x.items() if k != "why"} for x in o["store"]]}, c, embs, o["store"]))
                continue
            ctx.count(n=2 * len(embs))
            s = stats.setdefault(c["prod"], {"runs": 0, "distinct": 0, "accepted": 0})
            s["runs"] += len(embs)
            if "exc" in o:
                if c["prod"] == "store":
                    ctx.violation("raises", {"case": {k: c[k] for k in ("prod", "producer", "objs", "ops")}, "embeddings": embs}, o,
                                  {"prod": "store", "producer": c["producer"], "op": "same-path", "embedding": embs[0]})
                else:
                    ctx.violation("raises", {"case": {k: c[k] for k in ("prod", "src", "op")}, "embeddings": embs}, o,
                                  features_of(c, o, embs))
                continue
            s["distinct"] += 1
            s["accepted"] += o["accepted"]
            ev = {"prod": c["prod"], "src": dict(c["src"], unit=o["unit"]) if "unit" in o else c["src"], "op": c["op"]}
            ev.update({k: o[k] for k in ("pre", "post", "d1", "d2", "accepted", "back")})
            events.append((ev, c, embs, o.get("why", "")))
    traces = []
    for i in range(0, len(events), EVENTS_PER_TRACE):
        t = {"kind": "batch", "events": [e[0] for e in events[i:i + EVENTS_PER_TRACE]]}
        t["id"] = f"{i}-{digest(t)}"
        traces.append((t, events[i:i + EVENTS_PER_TRACE]))
    for k, (t, c, embs, ops) in enumerate(stores):
        t["id"] = f"s{k}-{digest(t)}"
    verdicts = tlc.validate_traces(ctx, "DocsTrace", "DocsTrace", [t for t, _e in traces] + [x[0] for x in stores], chunk=1500)
    for t, c, embs, ops in stores:
        v = verdicts[t["id"]]
        ctx.count(digest([c["producer"], c["ops"]]), nontrivial=True, n=0)
        for (l, clause) in v["fails"]:
            op = ops[l - 1]
            ctx.violation(clause, {"case": {k: c[k] for k in ("prod", "producer", "objs", "ops")}, "embeddings": embs, "read": l},
                          {"accepted": op["accepted"], "back": op["back"], "reader_said": op.get("why", "")},
                          {"prod": "store", "producer": c["producer"], "op": "same-path", "embedding": embs[0]})
    for t, evs in traces:
        v = verdicts[t["id"]]
        for ev, c, embs, why in evs:
            nontrivial = not (c["prod"] in ("die", "alloc") and not c["src"]) and ev["accepted"] == 1
            ctx.count(digest([ev["prod"], ev["src"], ev["op"]]), nontrivial=nontrivial, n=0)
        for (l, clause) in v["fails"]:
            ev, c, embs, why = evs[l - 1]
            detail = {"accepted": ev["accepted"], "back": ev["back"], "repeat": ev["d1"] == ev["d2"], "unaltered": ev["pre"] == ev["post"]}
            if why:
                detail["reader_said"] = why
            ctx.violation(clause, {"case": {k: c[k] for k in c if k not in ("embs", "nemb")}, "embeddings": embs}, detail,
                          features_of(c, ev, embs))
        for (l, what) in v["drift"]:
            ev, c, embs, why = evs[l - 1]
            if what == "source_object":
                raise MachineryError(f"the real object does not show the source object: {c['prod']} {c['src']} {ev['pre']}")
            if not any(f[0] == l for f in v["fails"]):
                ctx.model_drift(f"{c['prod']}: {what} differs from the model (every clause holds)")
    for t, evs in traces[:1] + traces[-1:]:
        ev, c, embs, _why = evs[-1]
        ctx.sample({"prod": ev["prod"], "src": ev["src"], "op": ev["op"], "embeddings": embs, "accepted": ev["accepted"],
                    "back": ev["back"]})


def prepare(cases, nemb):
    out = []
    seen_store = set()
    for k, c in enumerate(cases):
        if c["prod"] == "store":
            key = json.dumps([c["producer"], c["ops"]])
            if key in seen_store:
                continue
            seen_store.add(key)
        if c["prod"] == "netgen":
            src = c["src"]
            # outside the quantifier: sizes for which the topology is not defined (Docs!Defined, InvDefinedSizes)
            if src[0] in ("ring-star", "one-net") and src[1][0] == 1:
                continue
        c = dict(c)
        # the populous / expensive families take two embeddings per object even in thorough
        c["nemb"] = min(nemb, 2) if c["prod"] in ("die", "alloc", "rect_netlist", "legal") else nemb
        if c["prod"].startswith("floorset") and c["src"].get("dens"):
            c["nemb"] = max(1, nemb // 2)       # (every unit gives its own expected weights: no two runs share an event)
        c["embs"] = embeddings_for(c, k)
        out.append(c)
    return out


def run(ctx: Ctx) -> int:
    if ctx.replay:
        rec = json.load(open(ctx.replay))
        c = dict(rec["case"]["case"])
        c["embs"] = rec["case"]["embeddings"]
        decide(ctx, [c])
        return ctx.finish("model_checking", "replay of one recorded case")
    tier = ctx.tier
    tlc.model_check(ctx, "Docs", f"Docs_mc_{tier}", vacuity_ignore=("Emit", "EmitStore"))
    printed = tlc.generate(ctx, "Docs", f"Docs_gen_{tier}")
    rng = random.Random(ctx.seed * 1000003 + 19)
    cases = prepare(printed, 2 if tier == "quick" else 3) + prepare(random_cases(rng, 120 if tier == "quick" else 900), 2)
    decide(ctx, cases)
    st = ctx.extra["observed"]
    missing = [p for p in RUNNERS if p != "store" and st.get(p, {}).get("accepted", 0) == 0]
    missing += [p for p in ("die", "alloc", "netgen", "floorset_fpef", "rect_netlist", "rect_solution") if st.get("store:" + p, {}).get("accepted", 0) == 0]
    if missing and not ctx.violations:      # (rejected documents are violations, reported below -- not a vacuous run)
        raise MachineryError(f"vacuous run: no accepted document for {missing}: {st}")
    ctx.extra["embeddings"] = ALL
    ctx.extra["cases"] = {"tlc": len(printed), "total": len(cases)}
    ctx.assumptions += [
        "float dimension sampled by the embeddings of harness/lattice.py: every TLC-emitted object under 2 (quick) or 3 (thorough; 2 for dies, "
        "allocations, rect_netlist and the legaliser) of them, "
        "rotating so that all are used (dies and FloorSet instances: origin-0 embeddings; legaliser: those of C09; rect_solution, rect_netlist and "
        "the legaliser also in units of 1e-6 and 1e-6/3; the generator has no coordinates)",
        "observed numbers are compared in 1/1000 lattice units (1/1000 for ratios and weights); centroids and areas within one such unit",
        "the reader runs as in a fresh process (Rectangle tolerances undefined before every load)",
        "generator sizes outside Defined (ring-star 1, one-net 1) are outside the quantifier and are not run",
        "same-path histories (write, read, change the object, write again, read again; 1 path quick, 2 paths thorough) run inside one process "
        "through the file-name interface of every producer that has one (die, allocation, netgen -o, FloorSet FPEF, the rect stage's input and output files)",
        "FloorSet: connection rows of weight 0 in both tables (block-to-block and pin-to-block) and of positive weight, some weight positive; "
        "density None and a density (weights scaled; then blocks of one shape given as closed vertex lists without padding rows); "
        "terminals_as_modules False, pins spanning a die of positive size",
        "legaliser models are built as the stage builds them and not solved: the emitted netlist carries the initial rectangles",
        "same design = names, kinds (hard, fixed, terminal, flip), total area of soft modules, centre of modules without rectangles, "
        "rectangle geometry, net members and weights; region tags of module rectangles and listing order are model conformance only",
    ]
    return ctx.finish(
        "model_checking",
        "TLC enumerates every object of the bounded universe per producer and proves the round trip for the intended writers; every object "
        "is produced twice by the real producer and read back by the real reader; evaluations = producer calls; distinct = distinct "
        "(producer, object, operation) judged by TLC; non-trivial = accepted documents of non-empty objects",
        exhaustive=False)
