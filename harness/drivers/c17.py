"""C17 -- Disc-overlap area is total, symmetric, bounded and accurate.

TLC (Disc) proves the integer side of the property on the whole bounded universe (case partition, branch
conditions, acos domain margin = Heron's 16 T^2, exact k*pi values, closed forms, Lipschitz enclosure, sweep
monotonicity) and emits, per pair of radii, every lattice offset of the second centre.  Every offset is evaluated
on the real `circle_circle_intersection_area` in both argument orders, under all eight float embeddings and with
the second centre moved by -3..+3 units in the last place along the line of centres.  The returned areas are
pulled back to integers (units of 1e-8 * rmax^2) and the resulting sweeps are judged by TLC (DiscTrace).
A seeded random driver adds radii up to 40, offsets up to 100, arbitrary first centres and directions, with
tangent configurations forced through Pythagorean triples.
"""
from __future__ import annotations

import json
import math
import random

from ..core import Ctx, MachineryError, digest
from ..forkpool import prepare_imports, run_cases
from fractions import Fraction as F

from ..lattice import ALL, EMBEDDINGS, EXACT, Emb
from .. import tlc

KS = [-3, -2, -1, 0, 1, 2, 3]
# The statement quantifies over ALL centres and radii and every clause is relative to rmax^2, so the same lattice sweep
# must give the same judgement at any magnitude.  Besides the shared embeddings the TLC-generated sweeps run at three
# extreme lattice steps: 1e-6 ("micro", shared), 1e-9 ("nano", local: every lattice distance of the sweeps is below
# 1e-6 there) and 1e9 ("huge", shared).  They expose absolute thresholds in a scale-free formula.
EMBS = dict(EMBEDDINGS, nano=Emb("nano", F(1, 10 ** 9)))
MAGNITUDES = ["micro", "nano", "huge"]
UNIT = 1e8              # areas are sent to TLC in units of 1e-8 * rmax^2
CLAMP = 1_000_000_000   # |n| is clamped so that differences stay inside TLC's 32-bit integers
CHAIN = ("accuracy_monotone", "accuracy_lipschitz")


def _shift(v, k: int):
    """v moved by k units in the last place (k = 0: unchanged, the int embedding stays int)."""
    if k == 0:
        return v
    x = float(v)
    tgt = math.inf if k > 0 else -math.inf
    for _ in range(abs(k)):
        x = math.nextafter(x, tgt)
    return x


def _lattice_case(r1, r2, d2) -> str:
    """Label used for reporting / known-finding features only (the judgement is TLC's)."""
    if d2 == 0:
        return "concentric"
    if d2 < (r1 - r2) ** 2:
        return "nested"
    if d2 == (r1 - r2) ** 2:
        return "intTangent"
    if d2 < (r1 + r2) ** 2:
        return "lens"
    if d2 == (r1 + r2) ** 2:
        return "extTangent"
    return "apart"


def run_case(case):
    """One sweep: fixed radii, first centre c1, second centre c1 + sg * (dx, dy) for every point, every k.
    -> {embedding: (events, infos)}, events = [d2, k, s12, n12, s21, n21, z12, z21] sorted by (d2, k) and
    merged when identical; infos[i] = [dx, dy, k, multiplicity, exception text, how the centres were given] of the first owner."""
    from frame.geometry.geometry import Point
    from tools.force.fruchterman_reingold import circle_circle_intersection_area as area

    r1, r2 = case["r1"], case["r2"]
    c1x, c1y = case["c1"]
    sx, sy = case["sg"]
    out = {}
    for en in case["embs"]:
        emb = EMBS[en]
        R1, R2 = emb.length(r1), emb.length(r2)
        rmax = float(max(R1, R2))
        scale = UNIT / (rmax * rmax)
        X1, Y1 = emb.coord(c1x), emb.coord(c1y)

        def obs(xa, ya, ra, xb, yb, rb):
            try:
                v = area(Point(xa, ya), ra, Point(xb, yb), rb)
            except Exception as e:  # the statement says: defined for every pair, never fails
                return 1, 0, 0, f"{type(e).__name__}: {e}"
            if isinstance(v, bool) or not isinstance(v, (int, float)) or not math.isfinite(v):
                return 2, 0, 0, repr(v)
            n = round(v * scale)
            n = max(-CLAMP, min(CLAMP, n))
            return 0, n, int(type(v) is int and v == 0), ""

        merged: dict[tuple, list] = {}

        def put(d2, dx, dy, k, kk, o12, o21, how=""):
            s12, n12, z12, m12 = o12
            s21, n21, z21, m21 = o21
            key = (d2, s12, n12, s21, n21, z12, z21)
            if key in merged:
                g = merged[key]
                g[3] += 1
                g[5] = min(g[5], kk)
                if kk == 0 and g[2] != 0:
                    g[0], g[1], g[2] = dx, dy, 0
            else:
                merged[key] = [dx, dy, k, 1, m12 or m21, kk, how]

        # Object identity must not matter: the SAME Point instance as both centres (two different concentric discs), and
        # two modules that share one centre object seen through total_intersection_area (which sums both ordered pairs).
        # Both are the lattice configuration D2 = 0 and are judged like it.
        ident = [pt[3] for pt in case["pts"] if len(pt) == 4] or (["shared_point", "shared_centre_in_total_intersection_area"]
                                                                    if all(len(pt) == 2 for pt in case["pts"]) else [])
        for how in ident:
            if how == "shared_point":
                def shared(ra, rb):
                    p = Point(X1, Y1)
                    try:
                        v = area(p, ra, p, rb)
                    except Exception as e:
                        return 1, 0, 0, f"{type(e).__name__}: {e}"
                    if isinstance(v, bool) or not isinstance(v, (int, float)) or not math.isfinite(v):
                        return 2, 0, 0, repr(v)
                    return 0, max(-CLAMP, min(CLAMP, round(v * scale))), int(type(v) is int and v == 0), ""
                put(0, 0, 0, 0, 0, shared(R1, R2), shared(R2, R1), how)
            else:
                def total():
                    try:
                        from frame.geometry.geometry import Rectangle
                        from frame.netlist.netlist import Netlist
                        from frame.die.die import Die
                        from tools.force.fruchterman_reingold import total_intersection_area
                        Rectangle.undefine_epsilon()
                        a1, a2 = math.pi * float(R1) ** 2, math.pi * float(R2) ** 2
                        nl = Netlist({"Modules": {"A": {"area": a1, "center": [float(X1), float(Y1)]},
                                                  "B": {"area": a2, "center": [float(X1), float(Y1)]}}})
                        nl.modules[1].center = nl.modules[0].center          # stacked: one centre object for both
                        side = 4 * rmax + 2 * abs(float(X1)) + 2 * abs(float(Y1)) + 1
                        v = total_intersection_area(Die(f"{side!r}x{side!r}", nl)) / 2   # both ordered pairs are summed
                    except Exception as e:
                        return 1, 0, 0, f"{type(e).__name__}: {e}"
                    if not isinstance(v, (int, float)) or not math.isfinite(v):
                        return 2, 0, 0, repr(v)
                    return 0, max(-CLAMP, min(CLAMP, round(v * scale))), 0, ""
                o = total()
                put(0, 0, 0, 0, 0, o, o, how)
        for pt in case["pts"]:
            if len(pt) == 4:
                continue
            dx, dy = pt[0], pt[1]
            ks = KS if len(pt) == 2 else [pt[2]]
            d2 = dx * dx + dy * dy
            X2, Y2 = emb.coord(c1x + sx * dx), emb.coord(c1y + sy * dy)
            for k in ks:
                if d2 == 0:
                    x2, y2, kk = _shift(X2, k), Y2, abs(k)      # coincident centres: any direction, distance |k| ulp
                else:
                    x2 = _shift(X2, k * sx) if dx else X2        # along the line of centres, k > 0 = away
                    y2 = _shift(Y2, k * sy) if dy else Y2
                    kk = k
                put(d2, dx, dy, k, kk, obs(X1, Y1, R1, x2, y2, R2), obs(x2, y2, R2, X1, Y1, R1))
        # identical observations at the same D2 (typically all ulp shifts away from a boundary) are one event,
        # placed at its smallest shift and labelled k = 0 if the unshifted evaluation is among them
        keys = sorted(merged, key=lambda q: (q[0], merged[q][5], q))
        out[en] = ([[q[0], 0 if merged[q][2] == 0 else merged[q][5], *q[1:]] for q in keys], [merged[q][:5] + [merged[q][6]] for q in keys])
    return out


# --------------------------------------------------------------------------------------------- random driver
def _pythagorean(limit: int) -> list[tuple[int, int, int]]:
    out = []
    for a in range(1, limit):
        for b in range(a, limit):
            h = math.isqrt(a * a + b * b)
            if h * h == a * a + b * b and h <= limit:
                out += [(a, b, h), (b, a, h)]
    for h in range(1, limit + 1):
        out += [(h, 0, h), (0, h, h)]
    return out


def _sums_of_two_squares(limit: int) -> dict[int, list]:
    out: dict[int, list] = {}
    for a in range(0, limit + 1):
        for b in range(a, limit + 1):
            out.setdefault(a * a + b * b, []).append((a, b))
    return out


SUM2 = _sums_of_two_squares(100)


def random_cases(rng: random.Random, n: int) -> list[dict]:
    """Sweeps with radii up to 40 and offsets up to 100, first centre and direction arbitrary; half of the points
    of every sweep are forced onto a case boundary or a closed-form configuration."""
    RM, NCR = 40, 100
    pyth = _pythagorean(80)
    by_h: dict[int, list] = {}
    for a, b, h in pyth:
        by_h.setdefault(h, []).append((a, b))
    cases = []
    for _ in range(n):
        mode = rng.randrange(4)
        if mode == 0:
            r1 = r2 = rng.randint(1, RM)
        elif mode == 1:
            r1 = rng.randint(1, RM); r2 = max(1, min(RM, r1 + rng.choice([-2, -1, 1, 2])))
        else:
            r1, r2 = rng.randint(1, RM), rng.randint(1, RM)
        pts = {(0, 0)}
        for h in (r1 + r2, abs(r1 - r2)):
            for (a, b) in by_h.get(h, [])[:]:
                if a <= NCR and b <= NCR:
                    pts.add((a, b))
        if r1 == r2:
            pts.add((r1, r1))                               # D2 = 2 r^2
            for (a, b) in by_h.get(r1, []):                 # D2 = r^2
                pts.add((a, b))
        # just inside / just outside each tangency: squared distance (r1 +- r2)^2 + k, |k| <= 3 (relative gap k / (2 R^2))
        for h in (r1 + r2, abs(r1 - r2)):
            for k in (-3, -2, -1, 1, 2, 3):
                for (a, b) in SUM2.get(h * h + k, [])[:2]:
                    pts.add((a, b))
        lim = min(NCR, r1 + r2 + 3)
        for _i in range(12):
            pts.add((rng.randint(0, lim), rng.randint(0, lim)))
        for _i in range(3):
            pts.add((rng.randint(0, NCR), rng.randint(0, NCR)))
        cases.append({"r1": r1, "r2": r2, "c1": [rng.randint(0, 60), rng.randint(0, 60)],
                      "sg": [rng.choice([-1, 1]), rng.choice([-1, 1])],
                      "pts": [list(p) for p in sorted(pts)], "origin": "random"})
    return cases


# --------------------------------------------------------------------------------------------- judging
def decide(ctx: Ctx, cases: list[dict], budget: int = 600000):
    """Run the sweeps on the real code, then let TLC judge every distinct observed sweep."""
    prepare_imports()
    import frame.geometry.geometry  # noqa: F401  (imported in the parent, used only in children)
    import tools.force.fruchterman_reingold  # noqa: F401
    for c in cases:
        c.setdefault("embs", ALL)
        c.setdefault("c1", [0, 0])
        c.setdefault("sg", [1, 1])
    sampled = 0
    # groups of sweeps of bounded total size (memory, and one TLC launch per group)
    groups, cur, size = [], [], 0
    for c in cases:
        w = len(c["pts"]) * len(KS) * len(c["embs"])
        if cur and size + w > budget:
            groups.append(cur); cur, size = [], 0
        cur.append(c); size += w
    if cur:
        groups.append(cur)
    for part in groups:
        results = run_cases(run_case, part, nproc=16)
        traces, meta = {}, {}
        for c, (st, val) in zip(part, results):
            if st != "ok":
                ctx.violation("total", {"r1": c["r1"], "r2": c["r2"], "c1": c["c1"], "sg": c["sg"], "pts": c["pts"][:50]},
                              {"status": st}, {"clause": "total", "case": "worker_" + st})
                continue
            for en, (events, infos) in val.items():
                t = {"r1": c["r1"], "r2": c["r2"], "ex": int(en in EXACT), "events": events}
                key = digest([t, c["c1"], c["sg"]])
                if key in traces:          # the same observation under another embedding: already judged
                    meta[key]["embs"].append(en)
                else:
                    t["id"] = key
                    traces[key] = t
                    meta[key] = {"case": c, "embs": [en], "infos": infos}
                for e, inf in zip(events, infos):
                    ctx.count(n=2 * inf[3])
        verdicts = tlc.validate_traces(ctx, "DiscTrace", "DiscTrace", list(traces.values()), chunk=100000)
        for key, v in verdicts.items():
            t, m = traces[key], meta[key]
            c, infos = m["case"], m["infos"]
            r1, r2 = t["r1"], t["r2"]
            for e in t["events"]:
                lc = _lattice_case(r1, r2, e[0])
                if lc != "apart":
                    ctx.count(f"{r1},{r2},{e[0]}", nontrivial=True, n=0)
            for (l, clause) in v["fails"]:
                e, inf = t["events"][l - 1], infos[l - 1]
                pts = [[inf[0], inf[1], inf[2]] + ([inf[5]] if inf[5] else [])]
                detail = {"event": e, "lattice_case": _lattice_case(r1, r2, e[0])}
                if inf[5]:
                    detail["how"] = inf[5]
                if inf[4]:
                    detail["exception"] = inf[4]
                if clause in CHAIN:        # the other half of the pair: the last earlier event with a value
                    for j in range(l - 2, -1, -1):
                        p = t["events"][j]
                        if p[2] == 0 or p[4] == 0:
                            pts.insert(0, [infos[j][0], infos[j][1], infos[j][2]])
                            detail["previous_event"] = p
                            break
                ctx.violation(clause,
                              {"r1": r1, "r2": r2, "embedding": m["embs"][0], "c1": c["c1"], "sg": c["sg"], "pts": pts},
                              detail,
                              {"clause": clause, "case": _lattice_case(r1, r2, e[0]), "k": e[1],
                               "embedding": m["embs"][0], "status": max(e[2], e[4]), "centres_given_as": inf[5] or "two_points",
                               "exception": inf[4].split(":")[0] if (e[2] == 1 or e[4] == 1) else ""})
            for (l, what) in v["drift"]:
                ctx.model_drift(f"{what}: with exact inputs the code did not take the `return 0` branch exactly when the model does")
            if sampled < 4 and len(t["events"]) > 3:
                sampled += 1
                ctx.sample({"r1": r1, "r2": r2, "embeddings": m["embs"], "c1": c["c1"], "sg": c["sg"],
                            "first_events": t["events"][:6], "events": len(t["events"])})


def run(ctx: Ctx) -> int:
    if ctx.replay:
        rec = json.load(open(ctx.replay))
        c = rec["case"]
        case = {"r1": c["r1"], "r2": c["r2"], "c1": c["c1"], "sg": c["sg"], "pts": c["pts"], "embs": [c["embedding"]]}
        decide(ctx, [case])
        return ctx.finish("model_checking", "replay of one recorded case")
    tier = ctx.tier
    tlc.model_check(ctx, "Disc", f"Disc_mc_{tier}", vacuity_ignore=("Emit",))
    gen = tlc.generate(ctx, "Disc", f"Disc_gen_{tier}")
    cases = []
    for g in gen:
        pts = sorted([p[0], p[1]] for p in g["pts"])
        for p in g["pts"]:   # the harness' reporting label and the spec's Case must be the same function
            if _lattice_case(g["r1"], g["r2"], p[2]) != p[3]:
                raise MachineryError(f"case label mismatch harness/spec at {g['r1']},{g['r2']},{p}")
        cases.append({"r1": g["r1"], "r2": g["r2"], "pts": pts, "origin": "tlc", "embs": ALL + MAGNITUDES})
    if not cases:
        raise MachineryError("TLC generated no cases")
    n_tlc = len(cases)
    rng = random.Random(ctx.seed * 1000003 + 17)
    cases += random_cases(rng, 200 if tier == "quick" else 2500)
    decide(ctx, cases)
    ctx.extra["embeddings"] = ALL
    ctx.extra["magnitude_embeddings_for_tlc_sweeps"] = MAGNITUDES
    ctx.extra["ulp_offsets"] = KS
    ctx.extra["sweeps_from_tlc"] = n_tlc
    ctx.extra["sweeps_random"] = len(cases) - n_tlc
    ctx.extra["uncovered"] = ["accuracy (1e-5 rmax^2) of the lens formula at generic interior points: TLC has no acos; "
                              "there only the Lipschitz enclosure, monotonicity and the drop bound are decided"]
    ctx.assumptions += [
        "every clause is relative to rmax^2, so the TLC-generated sweeps are also run at lattice steps 1e-6, 1e-9 and 1e9 (micro, nano, "
        "huge): an absolute threshold in the code (a guard like d < 1e-6) is invisible at unit scale and decisive there",
        "object identity: every sweep is also evaluated with ONE Point instance as both centres and, through total_intersection_area, with "
        "two modules sharing one centre object (both are the configuration D2 = 0)",
        "float dimension sampled: 8 embeddings of the integer lattice x 7 ulp shifts of the second centre along the line of centres, not enumerated",
        "areas pulled back as round(area / rmax^2 * 1e8); tolerances in TLA+: accuracy 1e-5 rmax^2 (1000 units), symmetry and bounds 1e-6 rmax^2 (100 units), 3 units slack for the rounding of the constants and the <= 3 ulp shift",
        "monotone / Lipschitz / enclosure clauses are consequences of the accuracy clause (two values within 1e-5 rmax^2 of a non-increasing 2*rmin-Lipschitz function), judged with 2e-5 rmax^2",
    ]
    return ctx.finish(
        "model_checking",
        "TLC enumerates all radii pairs and all lattice offsets of the second centre; one evaluation = one call of "
        "circle_circle_intersection_area (both argument orders, every embedding, every ulp shift); distinct = distinct "
        "lattice configurations (r1, r2, D2) whose observations were judged by TLC; non-trivial = lattice case is not `apart` (lens, tangent, "
        "nested or concentric)",
        explanation="Decided by TLC on every observation: totality, symmetry, both bounds, the exact value k*pi in all "
                    "non-lens cases (tangent, nested, concentric, apart) including +-3 ulp neighbourhoods of the case "
                    "boundaries, the closed forms for equal discs at D2 = 2 r^2 and D2 = r^2, and for lens cases "
                    "monotonicity in the distance, the chord (Lipschitz) bound between consecutive distances and the "
                    "enclosure that closes on the boundary values (continuity at the case boundaries). NOT decided: the "
                    "1e-5 rmax^2 accuracy of the lens formula at generic interior points (TLC has no acos; the integer "
                    "enclosure there only has the width of the Lipschitz bound). A wrong sign or term is caught by the "
                    "decided clauses, a smooth drift of 1e-4 rmax^2 confined to the interior is not.",
        exhaustive=False)
