"""DRAW -- tools/draw/draw.py draws a floorplan as its docstrings, option help and README say.   (extra engine)

TLC (Draw / DrawMC) model-checks the lemmas of the scaling (requested / aspect / default / corner images / inside /
monotone / affine), of the bounding box, of the star of a net, of the output file name and of the plot (refused exactly
for undrawable designs, every shape inside the die drawn inside the inner frame) and prints canvases x small designs
(incl. the degenerate ones: width only, height only, both, neither; a very flat die; modules on the border; a terminal
outside the die; a module that cannot be drawn; the empty netlist; two allocation scenes) and file names.
For every case the harness builds the real Netlist / Allocation under a float embedding and calls the real
calculate_scaling, scale, check_modules, calculate_bbox, calculate_centers and get_floorplan_plot; the plot is observed
through a recording ImageDraw stub (ImageDraw.Draw monkeypatched, restored in `finally`) so that the trace holds the
pixel box of every primitive; get_font is stubbed (no fonts).  main() is run on files in the scratch directory.
Everything is pulled back to integers and judged by TLC (DrawTrace).  Seeded random larger designs, the grid documents
of tools/netgen with the initial allocation of their die, and the examples under tools/draw/examples follow the same path.
"""
from __future__ import annotations

import json
import math
import os
import random
import time

from ..core import Ctx, REPO, canon, digest
from ..forkpool import prepare_imports, run_cases
from ..lattice import EMBEDDINGS, ORIGIN0
from .. import tlc

RD = 4                      # allocation ratios are numerators over 4 (as in Draw.tla)


# ------------------------------------------------------------------------------------------------ building the real objects
def build_netlist_tree(design: dict, emb) -> dict:
    mods = {}
    for (name, kind, cx, cy, r, rects) in design["mods"]:
        if rects:
            d = {"hard": True, "rectangles": [emb.rect(t) for t in rects]}
        elif kind == "circle":
            rr = r if isinstance(r, (int, float)) else r[0] / r[1]
            d = {"area": math.pi * float(emb.length(1)) ** 2 * rr * rr, "center": [emb.coord(cx), emb.coord(cy)]}
        elif kind == "terminal":
            d = {"terminal": True, "center": [emb.coord(cx), emb.coord(cy)]}
        else:                                              # a soft module without centre: not drawable
            d = {"area": float(emb.area(1))}
        mods[name] = d
    names = [m[0] for m in design["mods"]]
    return {"Modules": mods, "Nets": [[names[i - 1] for i in net] for net in design["nets"]]}


def build_alloc_tree(design: dict, emb) -> list:
    names = [m[0] for m in design["mods"]]
    return [[emb.rect(c[:4]), {names[i]: v / RD for i, v in enumerate(c[4]) if v}] for c in design["cells"]]


class _Recorder:
    """Stands in for the object ImageDraw.Draw returns: records the box of every primitive, then draws it for real."""
    log: list = []

    def __init__(self, real):
        self._real = real

    @staticmethod
    def _flat(xy):
        out = []
        for v in xy:
            out += list(v) if isinstance(v, (tuple, list)) else [v]
        return out

    def _rec(self, kind, xy):
        _Recorder.log.append([kind] + self._flat(xy))

    def rectangle(self, xy, *a, **k):
        self._rec("rect", xy)
        return self._real.rectangle(xy, *a, **k)

    def ellipse(self, xy, *a, **k):
        self._rec("ellipse", xy)
        return self._real.ellipse(xy, *a, **k)

    def line(self, xy, *a, **k):
        self._rec("line", xy)
        return self._real.line(xy, *a, **k)

    def __getattr__(self, name):
        return getattr(self._real, name)


def _observe_plot(dr, netlist, die_shape, alloc, w, h, f):
    from PIL import ImageDraw, ImageFont
    orig_draw, orig_font = ImageDraw.Draw, dr.get_font
    _Recorder.log = []
    ImageDraw.Draw = lambda im, mode=None: _Recorder(orig_draw(im, mode))
    dr.get_font = lambda size: ImageFont.load_default()
    try:
        im = dr.get_floorplan_plot(netlist, die_shape, alloc, w, h, f, 0)
        prims = []
        for p in _Recorder.log:
            if any(abs(v - round(v)) > 1e-9 for v in p[1:]):
                return {"raised": 0, "exc": "", "size": list(im.size), "prims": [], "nonint": 1}
            prims.append([p[0]] + [int(round(v)) for v in p[1:]])
        return {"raised": 0, "exc": "", "size": list(im.size), "prims": prims}
    except Exception as e:
        return {"raised": 1, "exc": f"{type(e).__name__}: {e}"[:120], "size": [0, 0], "prims": []}
    finally:
        ImageDraw.Draw, dr.get_font = orig_draw, orig_font


def run_plot(case: dict) -> dict:
    from frame.geometry.geometry import Rectangle, Shape, Point
    from frame.netlist.netlist import Netlist
    from frame.allocation.allocation import Allocation
    import tools.draw.draw as dr

    emb = EMBEDDINGS[case["emb"]]
    step = float(emb.step)
    design, (dw, dh), (w, h, f) = case["design"], case["die"], case["req"]
    Rectangle.undefine_epsilon()
    if case.get("tree"):                                   # a document of a real generator (netgen)
        netlist = Netlist(case["tree"])
    else:
        netlist = Netlist(build_netlist_tree(design, emb))
    alloc = None
    if case.get("alloc_tree"):
        alloc = Allocation(case["alloc_tree"])
    elif design["cells"]:
        alloc = Allocation(build_alloc_tree(design, emb))
    shape = Shape(emb.length(dw), emb.length(dh))
    obs: dict = {}
    if not case.get("tree"):
        # Netlist may reorder the rectangles of a module (trunk first): the design is described in the order it is held
        loaded = {m.name: [emb.back_rectangle(r) for r in m.rectangles] for m in netlist.modules}
        obs["_design"] = {"mods": [[m[0], m[1], m[2], m[3], m[4], loaded[m[0]] if m[5] else []] for m in design["mods"]],
                          "nets": design["nets"], "cells": design["cells"]}
        assert all(sorted(a[5]) == sorted(b[5]) for a, b in zip(obs["_design"]["mods"], design["mods"]))
    s = dr.calculate_scaling(shape, w, h, f)
    obs["sc"] = {"width": int(s.width), "height": int(s.height), "frame": int(s.frame),
                 "xw": int(round(s.xscale * float(shape.w) * 1000)), "yh": int(round(s.yscale * float(shape.h) * 1000))}
    if not (0 <= s.width <= 30000 and 0 <= s.height <= 30000):
        return {"huge": 1, "sc": obs["sc"]}                # (keeps TLC's 32-bit arithmetic and PIL's memory safe)
    pts = {(0, 0), (2 * dw, 2 * dh), (dw, dh), (2 * dw, 0), (0, 2 * dh)}
    rng = random.Random(case.get("seed", 0))
    pts |= {(rng.randint(0, 2 * dw), rng.randint(0, 2 * dh)) for _ in range(14)}
    pts |= {(x, 0) for x in range(0, 2 * dw + 1, max(1, dw // 4))}
    obs["pts"] = []
    for (x, y) in sorted(pts):
        p = dr.scale(Point(float(emb.length(x)) / 2, float(emb.length(y)) / 2), s)
        obs["pts"].append([x, y, int(p.x), int(p.y)])
    try:
        dr.check_modules(netlist.modules)
        obs["check"] = 0
    except AssertionError:
        obs["check"] = 1
    q = lambda v: int(round(float(v) / step * 1000))                          # noqa: E731
    try:
        b = dr.calculate_bbox(netlist)
        obs["bbox"] = [q(b.w), q(b.h)]
    except Exception as e:
        obs["bbox"], obs["bbox_exc"] = [], f"{type(e).__name__}: {e}"[:100]
    obs["centers"] = []
    if not obs["check"]:
        for e in netlist.edges:
            try:
                ps = dr.calculate_centers(e, alloc)
            except Exception:          # judged as "no points" (clause centers)
                ps = []
            obs["centers"].append([[q(p.x), q(p.y)] for p in ps])
    if (s.width + 2 * f) * (s.height + 2 * f) > 16_000_000:      # a picture this big is not drawn (memory); the scaling is judged
        obs["plot"] = {"raised": 0, "exc": "", "size": [0, 0], "prims": [], "skipped": 1}
    else:
        obs["plot"] = _observe_plot(dr, netlist, shape, alloc, w, h, f)
        obs["plot"]["skipped"] = 0
    return obs


def run_outname(case: dict) -> dict:
    import tools.draw.draw as dr
    return {"out": list(dr.gen_out_filename("".join(case["name"])))}


def run_raw(case: dict) -> dict:
    from frame.geometry.geometry import Point, Rectangle, Shape
    from frame.netlist.module import Module
    import tools.draw.draw as dr
    m = case["mod"]
    kw = {}
    if m["hasc"]:
        kw["center"] = Point(1.0, 2.0)
    if m["area"]:
        kw["area"] = 3.0
    if m["term"]:
        kw = {k: v for k, v in kw.items() if k != "area"}
        kw["terminal"] = True
    mod = Module("X", **kw)
    for _ in range(m["nrects"]):
        mod.add_rectangle(Rectangle(center=Point(1, 1), shape=Shape(2, 2)))
    try:
        dr.check_modules([mod])
        return {"raised": 0}
    except AssertionError:
        return {"raised": 1}


def run_main(case: dict) -> dict:
    """main() on files in a scratch directory: which file it creates, and the size of the picture in it."""
    import shutil
    import tempfile
    from PIL import Image, ImageFont
    from frame.geometry.geometry import Rectangle
    from frame.utils.utils import write_yaml
    import tools.draw.draw as dr
    emb = EMBEDDINGS[case["emb"]]
    d = tempfile.mkdtemp(prefix="draw-", dir=os.environ.get("TMPDIR"))
    cwd = os.getcwd()
    orig_font = dr.get_font
    dr.get_font = lambda size: ImageFont.load_default()
    try:
        os.chdir(d)
        name = "".join(case["name"])
        if os.path.dirname(name):
            os.makedirs(os.path.dirname(name), exist_ok=True)
        write_yaml(build_netlist_tree(case["design"], emb), name)
        args = [name, "--die", f"{emb.length(case['die'][0])}x{emb.length(case['die'][1])}", "--frame", str(case["req"][2]), "--fontsize", "0"]
        if case["req"][0]:
            args += ["--width", str(case["req"][0])]
        if case["req"][1]:
            args += ["--height", str(case["req"][1])]
        if case["design"]["cells"]:
            write_yaml(build_alloc_tree(case["design"], emb), "alloc.yml")
            args += ["--alloc", "alloc.yml"]
        if case["outopt"]:
            args += ["-o", "".join(case["outopt"])]
        before = {os.path.join(r, f) for r, _d, fs in os.walk(".") for f in fs}
        Rectangle.undefine_epsilon()
        try:
            dr.main("frame draw", args)
        except Exception as e:
            return {"raised": 1, "exc": f"{type(e).__name__}: {e}"[:120], "created": [], "size": []}
        new = sorted({os.path.join(r, f) for r, _d, fs in os.walk(".") for f in fs} - before)
        if len(new) != 1:
            return {"raised": 0, "exc": "", "created": list("|".join(new)), "size": []}
        with Image.open(new[0]) as im:
            size = list(im.size)
        return {"raised": 0, "exc": "", "created": list(new[0][2:]), "size": size}
    finally:
        dr.get_font = orig_font
        os.chdir(cwd)
        shutil.rmtree(d, ignore_errors=True)


def _dispatch(case: dict) -> dict:
    return {"plot": run_plot, "outname": run_outname, "raw": run_raw, "main": run_main}[case["kind"]](case)


# ------------------------------------------------------------------------------------------------ more cases
def random_plot(rng: random.Random, emb: str) -> dict:
    """Larger designs than TLC enumerates: dies to 60x60 (sometimes 50:1), any width / height / frame, up to 8 modules
    (circles, 1..3 rectangles, terminals; inside, on the border, sticking out), nets of 2..5 pins."""
    dw, dh = rng.choice([(rng.randint(2, 60), rng.randint(2, 60)), (rng.randint(40, 60), 1), (1, rng.randint(40, 60))])
    w = rng.choice([0, 0, rng.randint(1, 1200)])
    h = rng.choice([0, 0, rng.randint(1, 1200)])
    if dh * 5 < dw and w == 0:          # a flat die: ask for the long side only (the picture would be 50 x wider than asked)
        h = min(h, 40)
    if dw * 5 < dh and h == 0:
        w = min(w, 40)
    f = rng.choice([0, 1, 20, 40, rng.randint(0, 100)])
    mods = []
    for k in range(rng.randint(0, 8)):
        kind = rng.choice(["circle", "circle", "rects", "rects", "terminal"])
        x, y = rng.randint(0, dw + 2), rng.randint(0, dh + 2)
        if kind == "rects":
            x, y = rng.randint(0, max(0, dw - 2)), rng.randint(0, max(0, dh - 1))
            rs = [[x, y, x + rng.randint(1, 6), y + rng.randint(1, 4)]]
            for _ in range(rng.choice([0, 0, 1, 2])):
                t = rs[-1]
                rs.append([t[0], t[3], t[0] + rng.randint(1, 3), t[3] + rng.randint(1, 3)])
            mods.append([f"M{k}", "rects", 0, 0, 0, rs])
        elif kind == "circle":
            mods.append([f"M{k}", "circle", x, y, rng.randint(1, 4), []])
        else:
            mods.append([f"M{k}", "terminal", x, y, 0, []])
    nets = []
    # pins on modules with at most one rectangle (the centroid of several rectangles has a large denominator: TLC's
    # rationals are 32-bit; those centroids are covered by the TLC designs)
    pinnable = [i + 1 for i, m in enumerate(mods) if len(m[5]) <= 1]
    if len(pinnable) >= 2:
        for _ in range(rng.randint(0, 4)):
            nets.append(rng.sample(pinnable, rng.randint(2, min(4, len(pinnable)))))
    return {"kind": "plot", "src": "rnd", "emb": emb, "die": [dw, dh], "req": [w, h, f], "loose": 0, "seed": rng.randrange(1 << 30),
            "design": {"mods": mods, "nets": nets, "cells": []}}


def netgen_cases(rng: random.Random, n: int) -> list[dict]:
    """Grid documents of tools/netgen (gen_grid with centres) with and without the initial allocation of their die: real
    producers' documents.  Radii are not lattice numbers, so the exact pixel boxes are not judged (loose)."""
    out = []
    for i in range(n):
        rows, cols = rng.randint(1, 4), rng.randint(1, 4)
        if rows * cols < 2:
            cols = 2
        out.append({"kind": "plot", "src": "netgen", "emb": "flt", "die": [2 * cols, 2 * rows], "loose": 1, "seed": i,
                    "req": [rng.choice([0, 300]), rng.choice([0, 200]), rng.choice([0, 20, 40])],
                    "netgen": [rows, cols], "with_alloc": i % 2, "design": {"mods": [], "nets": [], "cells": []}})
    return out


def _expand_netgen(case: dict) -> dict:
    """(in the child) build the netgen document and, if asked, the initial allocation; describe them as a design"""
    from frame.geometry.geometry import Shape, Rectangle
    from frame.netlist.netlist import Netlist
    from frame.die.die import Die
    from frame.allocation.allocation import create_initial_allocation
    import tools.netgen.netgen as ng
    rows, cols = case["netgen"]
    dw, dh = case["die"]
    tree = ng.gen_grid(rows, cols, dw * dh / (rows * cols) * 0.6, True, 0, Shape(dw, dh))
    names = list(tree["Modules"])
    r = math.sqrt(dw * dh / (rows * cols) * 0.6 / math.pi)
    case = dict(case)
    case["tree"] = tree
    case["design"] = {"mods": [[nm, "circle", 2 * (i % cols) + 1, 2 * (i // cols) + 1, [int(round(r * 10 ** 6)), 10 ** 6], []]
                               for i, nm in enumerate(names)],
                      "nets": [[names.index(a) + 1, names.index(b) + 1] for a, b in tree["Nets"]], "cells": []}
    if case["with_alloc"]:
        Rectangle.undefine_epsilon()
        nl = Netlist(tree)
        die = Die(f"{dw}x{dh}", nl)
        die.initial_grid(rows, cols) if rows * cols > 1 else None
        al = create_initial_allocation(die)
        case["alloc_tree"] = [[[ra.rect.center.x, ra.rect.center.y, ra.rect.shape.w, ra.rect.shape.h], dict(ra.alloc)] for ra in al.allocations]
    return case


def _run(case: dict) -> dict:
    if case.get("netgen"):
        case = _expand_netgen(case)
        obs = run_plot(case)
        obs["_design"] = case["design"]
        obs["_ncells"] = len(case.get("alloc_tree", []))
        return obs
    return _dispatch(case)


# ------------------------------------------------------------------------------------------------ decision
def _trace(c: dict, obs: dict) -> dict | None:
    if c["kind"] == "plot":
        design = obs.pop("_design", c["design"])
        ncells = obs.pop("_ncells", 0)
        if ncells:                      # netgen + allocation: the cells are the grid squares, in the die's order (loose)
            return None
        # radii given as <<n, d>> (loose cases) are rounded up to the lattice for the box lemmas
        mods = [[m[0], m[1], m[2], m[3], m[4] if isinstance(m[4], int) else -(-m[4][0] // m[4][1]), m[5]] for m in design["mods"]]
        return {"kind": "plot", "die": c["die"], "req": c["req"], "loose": c.get("loose", 0),
                "design": {"mods": mods, "nets": design["nets"], "cells": design["cells"]},
                "obs": {k: ([] if k == "bbox" and c.get("loose") else obs[k]) for k in ("sc", "pts", "check", "bbox", "centers", "plot")}}
    if c["kind"] == "outname":
        return {"kind": "outname", "name": c["name"], "obs": obs["out"]}
    if c["kind"] == "raw":
        return {"kind": "raw", "mod": c["mod"], "obs": obs["raised"]}
    return {"kind": "main", "die": c["die"], "req": c["req"], "name": c["name"], "outopt": c["outopt"],
            "obs": {"raised": obs["raised"], "created": obs["created"], "size": obs["size"]}}


def _features(c: dict, clause: str, obs: dict) -> dict:
    feat = {"kind": c["kind"], "src": c.get("src", "tlc"), "emb": c.get("emb", ""), "clause": clause}
    if c["kind"] in ("outname", "main"):
        nm = "".join(c["name"])
        # the file name has no extension of its own but a directory part contains a dot (or starts the path with ./ ../)
        feat["dot_only_in_directory"] = int("." in os.path.dirname(nm) and "." not in os.path.basename(nm))
    if c["kind"] == "main" and clause == "returns":
        exc = obs.get("exc", "")
        mods = c["design"]["mods"]
        if exc.startswith("AssertionError: Incorrect total area") and mods and all(m[1] == "terminal" for m in mods):
            feat["main_fault"] = "terminals_only_epsilon"      # Netlist of terminals only sets the global tolerance to inf
        elif exc.strip() == "AssertionError:" and c["design"]["cells"]:
            feat["main_fault"] = "alloc_box_exact_compare"     # assert alloc_die <= die_shape compares floats exactly
        else:
            feat["main_fault"] = "other"
    if clause == "bbox_tight" and obs.get("bbox"):
        # signature: the box is what one gets by adding, for the modules WITH rectangles, the disc of their area around
        # their centroid (calculate_bbox does that for every module that has a centre)
        xs, ys = [0.0], [0.0]
        for m in c["design"]["mods"]:
            if m[5]:
                a = sum((t[2] - t[0]) * (t[3] - t[1]) for t in m[5])
                cx = sum((t[2] - t[0]) * (t[3] - t[1]) * (t[0] + t[2]) / 2 for t in m[5]) / a
                cy = sum((t[2] - t[0]) * (t[3] - t[1]) * (t[1] + t[3]) / 2 for t in m[5]) / a
                r = math.sqrt(a / math.pi)
                xs += [t[2] for t in m[5]] + [cx + r]
                ys += [t[3] for t in m[5]] + [cy + r]
            elif m[1] in ("circle", "terminal"):
                xs.append(m[2] + m[4])
                ys.append(m[3] + m[4])
        feat["disc_of_rect_module"] = int(abs(max(xs) * 1000 - obs["bbox"][0]) <= 2 and abs(max(ys) * 1000 - obs["bbox"][1]) <= 2)
    return feat


def decide(ctx: Ctx, cases: list[dict]):
    prepare_imports()
    import tools.draw.draw  # noqa: F401  (imported in the parent, used only in the children)
    import tools.netgen.netgen  # noqa: F401
    t0 = time.time()
    results = run_cases(_run, cases, nproc=16, case_timeout=120)
    ctx.extra["real_runs_wall_s"] = round(time.time() - t0, 1)
    st = ctx.extra.setdefault("runs", {"plot": 0, "plot_refused": 0, "primitives_recorded": 0, "outname": 0, "raw": 0, "main": 0,
                                       "netgen_with_allocation_not_boxed": 0})
    traces, owner = {}, {}
    for c, (status, obs) in zip(cases, results):
        st[c["kind"]] += 1
        if status != "ok":
            ctx.count()
            ctx.violation("returns", _small(c), {"status": status}, _features(c, "returns", {}))
            continue
        if c["kind"] == "plot" and obs.get("huge"):
            ctx.count()
            ctx.violation("scaling_aspect", _small(c), {"sc": obs["sc"], "why": "picture side beyond 30000 pixels (not sent to TLC)"},
                          _features(c, "scaling_aspect", obs))
            continue
        if c["kind"] == "plot":
            st["plot_refused"] += obs["plot"]["raised"]
            st["primitives_recorded"] += len(obs["plot"]["prims"])
            if obs["plot"].get("nonint"):
                ctx.count()
                ctx.violation("pixel_boxes", _small(c), {"why": "non-integer primitive coordinates"}, _features(c, "pixel_boxes", obs))
                continue
        t = _trace(c, obs)
        if t is None:
            st["netgen_with_allocation_not_boxed"] += 1
            # still judged from Python-free facts: the image was produced and has the size of the scaling
            t = {"kind": "plot", "die": c["die"], "req": c["req"], "loose": 1,
                 "design": {"mods": [], "nets": [], "cells": []},
                 "obs": {"sc": obs["sc"], "pts": obs["pts"], "check": 0, "bbox": [], "centers": [],
                         "plot": {"raised": obs["plot"]["raised"], "size": obs["plot"]["size"], "prims": obs["plot"]["prims"][:2],
                                  "skipped": obs["plot"]["skipped"]}}}
        key = digest(t)
        if key not in traces:
            t["id"] = key
            traces[key] = t
            owner[key] = (c, obs)
    verdicts = tlc.validate_traces(ctx, "DrawTrace", "DrawTrace", list(traces.values()), chunk=3000)
    for key, v in verdicts.items():
        c, obs = owner[key]
        nontrivial = c["kind"] != "plot" or len(c["design"]["mods"]) >= 1 or bool(c.get("netgen"))
        ctx.count(key, nontrivial=nontrivial, n=1)
        for (_l, clause) in v["fails"]:
            detail = {k: obs[k] for k in obs if k in ("sc", "check", "bbox", "centers", "out", "created", "size", "raised", "exc")}
            if c["kind"] == "plot":
                detail["plot"] = {"raised": obs["plot"]["raised"], "exc": obs["plot"]["exc"], "size": obs["plot"]["size"], "prims": obs["plot"]["prims"][:12]}
            ctx.violation(clause, _small(c), detail, _features(c, clause, obs))
        for (_l, clause) in v["drift"]:
            ctx.model_drift(f"{clause} ({c['kind']}, {c.get('emb', '')})")
    shown = set()
    for t in traces.values():
        c = owner[t["id"]][0]
        if c["kind"] not in shown:
            shown.add(c["kind"])
            ctx.sample({"case": _small(c), "trace": t})


def _small(c: dict) -> dict:
    return {k: v for k, v in c.items() if k not in ("tree", "alloc_tree")}


def run(ctx: Ctx) -> int:
    if ctx.replay:
        rec = json.load(open(ctx.replay))
        decide(ctx, [rec["case"]])
        return ctx.finish("model_checking", "replay of one recorded case")
    tier = ctx.tier
    quick = tier == "quick"
    tlc.model_check(ctx, "DrawMC", f"Draw_mc_{tier}", vacuity_ignore=("EmitPlot", "EmitName"))
    gen = tlc.generate(ctx, "DrawMC", f"Draw_gen_{tier}")
    gen.sort(key=canon)
    rng = random.Random(ctx.seed * 1000003 + 41)
    plots = [g for g in gen if g["kind"] == "plot"]
    names = [g for g in gen if g["kind"] == "outname"]
    ctx.extra["cases_from_tlc"] = {"plot": len(plots), "outname": len(names)}
    plots = rng.sample(plots, min(len(plots), 1000 if quick else 20000))
    cases = []
    for i, g in enumerate(plots):
        cases.append({"kind": "plot", "src": "tlc", "emb": ORIGIN0[i % len(ORIGIN0)], "die": g["die"], "req": g["req"], "loose": 0, "seed": i,
                      "design": g["design"]})
    cases += [{"kind": "outname", "src": "tlc", "name": g["name"]} for g in names]
    cases += [{"kind": "raw", "src": "tlc", "mod": {"nrects": a, "hasc": b, "area": c, "term": d}}
              for a in (0, 1, 2) for b in (0, 1) for c in (0, 1) for d in (0, 1)]
    # main(): drawable designs with a non-degenerate picture, file names with and without extension / dotted directories
    mains = [g for g in plots if g["design"]["mods"] and all(m[1] != "nocentre" for m in g["design"]["mods"])
             and g["req"][2] >= 1 and g["die"] != [40, 1]]
    # (relative names without doubled slashes: the harness finds the created file by walking the directory)
    main_names = [n["name"] for n in names if "/" not in n["name"][:1] and "//" not in "".join(n["name"])] or [["a"]]
    for i, g in enumerate(rng.sample(mains, min(len(mains), 60 if quick else 600))):
        nm = main_names[i % len(main_names)]
        cases.append({"kind": "main", "src": "tlc", "emb": ORIGIN0[i % len(ORIGIN0)], "die": g["die"], "req": g["req"], "design": g["design"],
                      "name": nm, "outopt": list("out.gif") if i % 4 == 3 else []})
    # every allocation scene through main() under the inexact embeddings as well
    scenes = {canon(g["design"]): g for g in plots if g["design"]["cells"] and g["req"][2] >= 1}
    for g in list(scenes.values())[:4]:
        for e in ("third", "dec", "flt"):
            cases.append({"kind": "main", "src": "tlc", "emb": e, "die": g["die"], "req": [100, 0, 20], "design": g["design"],
                          "name": list("aa.a"), "outopt": []})
    nrnd = 200 if quick else 4000
    cases += [random_plot(rng, ORIGIN0[i % len(ORIGIN0)]) for i in range(nrnd)]
    cases += netgen_cases(rng, 40 if quick else 400)
    ctx.extra["cases_run"] = {"tlc_plot": len(plots), "outname": len(names), "raw": 24, "main": sum(1 for c in cases if c["kind"] == "main"),
                              "random_plot": nrnd, "netgen": 40 if quick else 400}
    decide(ctx, cases)
    ctx.extra["embeddings"] = ORIGIN0
    ctx.assumptions += [
        "clauses are derived from the docstrings, option help and README of tools/draw (quoted in specs/Draw.tla)",
        "pixel coordinates are judged against the exact rational value: either neighbour is accepted on a tie (float "
        "arithmetic may fall on either side); exact agreement with round-half-even is conformance only",
        "no fonts: fontsize 0 and a stubbed get_font; text is not observed",
        "'inside the image' uses the tool's own convention: coordinates are pixel boundaries 0 .. width + 2 frame (the frame "
        "rectangles themselves are drawn up to that value)",
        "the bounding box is anchored at the origin as documented: shapes reaching below or left of it are not covered",
    ]
    return ctx.finish(
        "model_checking",
        "one evaluation = one observation (a canvas and design through calculate_scaling / scale / check_modules / "
        "calculate_bbox / calculate_centers / get_floorplan_plot, a file name, a hand-made module, a main() run) judged by "
        "TLC against Draw.tla; distinct non-trivial = distinct observations with at least one module, or of another kind",
        exhaustive=False)
