"""Shared by C02 / C12: drive real Allocation objects along refinement behaviours and let TLC (AllocTrace) judge."""
from __future__ import annotations

import math
import random
from fractions import Fraction as F

from ..core import Ctx, digest
from ..forkpool import prepare_imports, run_cases
from ..lattice import ALL, EMBEDDINGS, OffLattice

# eight embeddings plus the small-magnitude one (1e-6 units: the area tolerance exceeds the module areas there)
EMBS = ALL + ["micro", "mega"]
from .. import tlc

C02_CLAUSES = {"constructs", "succeeds", "same_tiling", "same_areas", "same_centroids", "inherits", "fixed_uncut", "accessors",
               "off_lattice", "no_result"}
C12_CLAUSES = {"mbr_iff_changes", "refine_exact", "uniform_exact", "aligned", "loop_terminates"}


def mod_name(m: int) -> str:
    return f"M{m + 1}"


def build(emb, cells, den, bump=None, late_fix=False):
    """late_fix: the fixed cells are tagged AFTER the Allocation is constructed (`rect.fixed = True` on the allocation's
    own rectangles: the route `Allocation._detect_fixed_rectangles` / `initial_allocation` takes), not in the descriptor."""
    from frame.allocation.allocation import Allocation
    from frame.geometry.geometry import Rectangle, Point, Shape
    lst = []
    for c in cells:
        cx, cy, w, h = emb.rect(c)
        r = Rectangle(center=Point(cx, cy), shape=Shape(w, h), fixed=bool(c[5]) and not late_fix)
        alloc = {mod_name(m): float(F(n, den)) for m, n in enumerate(c[6]) if n >= 0}
        lst.append((r, alloc, c[4]))
    for (ci, m, ulps) in (bump or []):      # near ties: an occupancy a few units in the last place off its lattice value
        v = lst[ci][1][mod_name(m)]
        for _ in range(abs(ulps)):
            v = math.nextafter(v, 2.0 if ulps > 0 else -1.0)
        lst[ci][1][mod_name(m)] = v
    a = Allocation(lst)
    if late_fix:
        for ra, c in zip(a.allocations, cells):
            if c[5]:
                ra.rect.fixed = True
    return a


def observe(emb, a, den, nm):
    cells = []
    for ra in a.allocations:
        rat = []
        for m in range(nm):
            v = ra.alloc.get(mod_name(m))
            if v is None:
                rat.append(-1)
            else:
                k = round(v * den)
                if abs(v * den - k) > 1e-9:
                    raise OffLattice(f"ratio {v!r}")
                rat.append(k)
        cells.append(emb.back_rectangle(ra.rect) + [int(ra.depth), int(bool(ra.rect.fixed)), rat])
    areas, cxs, cys = [], [], []
    s2 = float(emb.step) ** 2
    for m in range(nm):
        name = mod_name(m)
        try:   # public API only: allocation_module raises KeyError for a module the allocation does not mention
            present = bool(a.allocation_module(name))
        except (KeyError, AssertionError):
            present = False
        if present:
            ar = a.area(name) / s2 * den
            k = round(ar)
            if abs(ar - k) > 1e-6 * max(1.0, abs(ar)):
                raise OffLattice(f"area {ar!r}")
            c = a.center(name)
            areas.append(k)
            cxs.append(round((c.x - float(emb.off)) / float(emb.step) * 20))
            cys.append(round((c.y - float(emb.off)) / float(emb.step) * 20))
        else:
            areas.append(0); cxs.append(0); cys.append(0)
    return cells, areas, cxs, cys


def run_alloc_case(case):
    """case: {cells, den, nm, ops: [[name, tn, td, lv], ...], embs, predict}
    op names: refine | uniform | griddify | loop (refine(t) while must_be_refined(t), bounded)"""
    from frame.geometry.geometry import Rectangle
    res = {}
    den, nm = case["den"], case["nm"]
    for en in case["embs"]:
        emb = EMBEDDINGS[en]
        Rectangle.undefine_epsilon()
        try:
            try:
                a = build(emb, case["cells"], den, case.get("bump"), bool(case.get("late_fix")))
            except Exception as e:
                # a valid allocation (pairwise non-overlapping lattice cells, ratios in [0,1]) must be constructible
                res[en] = {"noconstruct": f"{type(e).__name__}: {e}"[:160]}
                continue
            events = []
            for op in case["ops"]:
                name, tn, td, lv = op
                thr = float(F(tn, td))
                todo = []
                if name == "loop":
                    todo = ["loop"]
                else:
                    todo = [name]
                steps = 0
                while todo:
                    cur = todo.pop()
                    ev = {"op": "refine" if cur == "loop" else cur, "tn": tn, "td": td, "lv": 1 if cur == "loop" else lv,
                          "predict": case.get("predict", 0), "mbr": 0, "neartie": int(bool(case.get("bump")))}
                    if ev["op"] == "refine":
                        ev["mbr"] = int(bool(a.must_be_refined(thr)))
                        if cur == "loop" and not ev["mbr"]:
                            break
                    try:
                        if ev["op"] == "refine":
                            b = a.refine(thr, ev["lv"])
                        elif ev["op"] == "uniform":
                            b = a.uniform_refinement_depth()
                        else:
                            b = a.griddify()
                        ev["ok"] = 1
                        a = b
                    except Exception as e:
                        ev["ok"] = 0
                        ev["why"] = f"{type(e).__name__}: {e}"[:100]
                    cells, areas, cxs, cys = observe(emb, a, den, nm)
                    ev.update({"after": cells, "areas": areas, "cx": cxs, "cy": cys})
                    events.append(ev)
                    if cur == "loop" and ev["ok"]:
                        steps += 1
                        if steps >= case.get("loop_bound", 4):
                            # the loop is still asking for refinement after `loop_bound` productive iterations: the
                            # allocation keeps changing (children inherit ratios), which the statement allows
                            break
                        todo.append("loop")
            res[en] = events
        except OffLattice as e:
            res[en] = {"off": str(e)}
    return res


def decide(ctx: Ctx, cases: list[dict], clauses: set[str]):
    prepare_imports()
    import frame.allocation.allocation  # noqa: F401
    results = run_cases(run_alloc_case, cases, nproc=16)
    traces, owners = {}, {}
    skipped = 0
    for c, (st, val) in zip(cases, results):
        if st != "ok":
            if "no_result" in clauses:
                ctx.violation("no_result", {"case": c}, {"status": st})
            continue
        for en, evs in val.items():
            ctx.count()
            if isinstance(evs, dict):
                if "noconstruct" in evs:
                    if "constructs" in clauses:
                        ctx.violation("constructs", {"den": c["den"], "nm": c["nm"], "cells": c["cells"], "ops": [], "event": 0,
                                                     "embeddings": [en]}, evs, {"embedding": en, "clause": "constructs"})
                elif "off_lattice" in clauses:
                    ctx.violation("off_lattice", {"case": c, "embedding": en}, evs, {"embedding": en})
                continue
            whys = [e.pop("why") for e in evs if "why" in e]
            t = {"den": c["den"], "cells0": c["cells"], "events": evs}
            key = digest(t)
            if key not in traces:
                t["id"] = key
                traces[key] = t
                owners[key] = {"embs": [], "why": whys, "ops": c["ops"]}
            owners[key]["embs"].append(en)
    verdicts = tlc.validate_traces(ctx, "AllocTrace", "AllocTrace", list(traces.values()), chunk=2000)
    for key, v in verdicts.items():
        t = traces[key]
        changed = any(e["ok"] and len(e["after"]) > len(t["cells0"]) for e in t["events"])
        ctx.count(key, nontrivial=changed, n=0)
        for (l, clause) in v["fails"]:
            if clause not in clauses:
                continue
            ev = t["events"][l - 1]
            before = t["cells0"] if l == 1 else t["events"][l - 2]["after"]
            feats = {"op": ev["op"], "clause": clause,
                     "has_fixed": any(c[5] for c in before),
                     "has_empty_map": any(all(n < 0 for n in c[6]) for c in before),
                     "raised": ev["ok"] == 0}
            ctx.violation(clause, {"den": t["den"], "nm": len(t["cells0"][0][6]), "cells": t["cells0"], "ops": owners[key]["ops"],
                                   "event": l, "embeddings": owners[key]["embs"]},
                          {"before": before, "observed": ev, "why": owners[key]["why"]}, feats)
        for (l, what) in v["drift"]:
            ctx.model_drift(f"{what}: result differs from the model's prediction (property clauses hold)")
    for t in list(traces.values())[:2]:
        ctx.sample({"trace": t, "embeddings": owners[t["id"]]["embs"]})


# ------------------------------------------------------------------------- random allocations
def random_alloc(rng: random.Random, unit: int = 32):
    """A guillotine layout of up to 6x6 lattice steps (unit micro-units each) with 2..8 cells, 2..3 modules, recorded
    depths 0..2, ratios over den 10 (inexact decimals), optionally one fixed cell and cells with an empty map."""
    Wd, Hd = rng.randint(2, 6), rng.randint(2, 6)
    leaves = [[0, 0, Wd, Hd]]
    for _ in range(rng.randint(1, 7)):
        i = rng.randrange(len(leaves))
        x1, y1, x2, y2 = leaves[i]
        if rng.random() < 0.5 and x2 - x1 > 1:
            c = rng.randint(x1 + 1, x2 - 1)
            leaves[i:i + 1] = [[x1, y1, c, y2], [c, y1, x2, y2]]
        elif y2 - y1 > 1:
            c = rng.randint(y1 + 1, y2 - 1)
            leaves[i:i + 1] = [[x1, y1, x2, c], [x1, c, x2, y2]]
    if rng.random() < 0.3 and len(leaves) > 2:
        leaves.pop(rng.randrange(len(leaves)))      # a hole: allocations need not cover a rectangle
    nm = rng.randint(2, 3)
    den = 10
    fixed_i = rng.randrange(len(leaves)) if rng.random() < 0.4 else -1
    cells = []
    for i, l in enumerate(leaves):
        rect = [v * unit for v in l]
        if i == fixed_i:
            rat = [den] + [-1] * (nm - 1)
            cells.append(rect + [rng.randint(0, 1), 1, rat])
            continue
        kind = rng.random()
        if kind < 0.12:
            rat = [-1] * nm
        else:
            rat = []
            left = den
            for m in range(nm):
                if rng.random() < 0.3:
                    rat.append(-1)
                else:
                    k = rng.randint(0, left)
                    rat.append(k); left -= k
        cells.append(rect + [rng.randint(0, 2), 0, rat])
    if rng.random() < 0.15:
        # "any recorded depths": an allocation that has been refined many times already (seeded C12-12: nothing may
        # depend on how deep a cell is)
        d0 = rng.choice([7, 8, 9, 15])
        for c in cells:
            c[4] += d0
    # every listed module needs a positive total
    for m in range(nm):
        if any(c[6][m] >= 0 for c in cells) and not any(c[6][m] > 0 for c in cells):
            for c in cells:
                if c[5] == 0 and c[6][m] >= 0:
                    c[6][m] = 1
                    break
    return {"cells": cells, "den": den, "nm": nm}


def random_ops(rng: random.Random, cells, budget: int = 4):
    """operation sequence whose total halving depth stays within `budget` (keeps every coordinate integral)"""
    ops = []
    thr = [(0, 1), (1, 10), (3, 10), (1, 2), (7, 10), (9, 10), (1, 1)]
    maxd = max(c[4] for c in cells)
    mind = min(c[4] for c in cells)
    for _ in range(rng.randint(1, 3)):
        k = rng.random()
        if k < 0.45 and budget >= 1:
            lv = rng.randint(1, min(2, budget))
            t = rng.choice(thr)
            ops.append(["refine", t[0], t[1], lv]); budget -= lv; maxd += lv
        elif k < 0.6 and budget >= 2:
            t = rng.choice(thr)
            ops.append(["loop", t[0], t[1], 1]); budget -= 2
            maxd += 2
        elif k < 0.8 and budget >= (maxd - mind):
            ops.append(["uniform", 0, 1, 0]); budget -= (maxd - mind); mind = maxd
        else:
            ops.append(["griddify", 0, 1, 0])
    return ops


def sliver_cases(rng: random.Random, n: int):
    """Strongly non-square refinable cells crossed by a neighbour's boundary close to their edge: the piece the cut
    would leave is thicker than 1% of the cell's SHORT side but thinner than 1% of its LONG side (and the mirror
    situation, where the cut is excepted) -- the layouts in which griddify's sliver rule matters."""
    out = []
    for _ in range(n):
        L, S = rng.choice([400, 500, 600]), rng.choice([40, 50, 60])
        d = rng.choice([1, 2, 3, 4, 5])            # 0.01*S < d < 0.01*L (d=... up to 5 with L >= 400: d <= 4 strictly below)
        if d * 100 >= L:
            d = 3
        flat = rng.random() < 0.5
        # A: the long cell; B, C: two cells on top (or to the right) meeting at distance d from A's edge
        near_far = rng.random() < 0.5
        c = d if near_far else L - d
        cells = [[0, 0, L, S], [0, S, c, 2 * S], [c, S, L, 2 * S]]
        if not flat:
            cells = [[r[1], r[0], r[3], r[2]] for r in cells]
        den = 2
        full = []
        for i, r in enumerate(cells):
            rat = [rng.choice([0, 1, 2]), rng.choice([-1, 0, 1])]
            if rat[0] <= 0 and rat[1] <= 0:
                rat[0] = 1
            full.append(r + [rng.randint(0, 1), 0, rat])
        ops = [["griddify", 0, 1, 0]]
        if rng.random() < 0.3:
            ops.append(["griddify", 0, 1, 0])
        out.append({"cells": full, "den": den, "nm": 2, "ops": ops, "embs": EMBS, "predict": 1})
    return out


def neartie_cases(rng: random.Random, n: int):
    """The largest occupancy of one refinable cell sits 1-3 units in the last place ABOVE (or below) the threshold, and
    no other cell is selectable: must_be_refined and refine must still agree (a tolerance in only one of them shows)."""
    out = []
    for _ in range(n):
        den = rng.choice([4, 10])
        tn = rng.randint(1, den - 1)
        ncell = rng.randint(1, 3)
        cells = []
        for i in range(ncell):
            if i == 0:
                rat = [tn, rng.choice([-1, 0, max(0, tn - 1)])]      # the tie cell: module 0 exactly at the threshold
            else:
                rat = [den, -1] if rng.random() < 0.5 else [min(den, tn + 1), -1]     # not selectable: something above t
            cells.append([32 * i, 0, 32 * (i + 1), 32, rng.randint(0, 1), 0, rat])
        ulps = rng.choice([1, 1, 2, 3, -1])
        out.append({"cells": cells, "den": den, "nm": 2, "ops": [["loop", tn, den, 1]] if rng.random() < 0.5 else [["refine", tn, den, 1]],
                    "embs": ["flt", "dec", "off"], "predict": 0, "bump": [[0, 0, ulps]], "loop_bound": 2})
    return out


def gen_cases(ctx: Ctx, tier: str, salt: int):
    """TLC-generated behaviours (exhaustive for the cfg) + seeded random behaviours"""
    gen = []
    for sfx in (["quick"] if tier == "quick" else ["thorough_a", "thorough_b"]):
        gen += tlc.generate(ctx, "AllocMC", f"Alloc_gen_{sfx}")
    cases = []
    for g in gen:
        nm = len(g["cells"][0][6])
        cases.append({"cells": g["cells"], "den": g["den"], "nm": nm, "ops": [list(o) for o in g["ops"]],
                      "embs": EMBS, "predict": 1})
    ctx.extra["behaviours_from_tlc"] = len(cases)
    rng = random.Random(ctx.seed * 1000003 + salt)
    cap = 3000 if tier == "quick" else 12000
    if len(cases) > cap:
        rng.shuffle(cases)
        cases = cases[:cap]
    ctx.extra["behaviours_from_tlc_replayed"] = len(cases)
    n = 400 if tier == "quick" else 2500
    for _ in range(n):
        a = random_alloc(rng)
        a["ops"] = random_ops(rng, a["cells"])
        a["embs"] = EMBS
        a["predict"] = 0
        a["loop_bound"] = 2
        cases.append(a)
    ctx.extra["behaviours_random"] = n
    sl = sliver_cases(rng, 60 if tier == "quick" else 600)
    cases += sl
    ctx.extra["sliver_layouts"] = len(sl)
    nt = neartie_cases(rng, 60 if tier == "quick" else 600)
    cases += nt
    ctx.extra["near_tie_cases"] = len(nt)
    # every second behaviour with a fixed cell reaches its state the way initial_allocation does: cells tagged as fixed
    # after the constructor returned (same abstract state, so the same verdicts are required)
    k = 0
    for c in cases:
        if any(cell[5] for cell in c["cells"]):
            k += 1
            if k % 2 == 0:
                c["late_fix"] = 1
    ctx.extra["late_fixed_behaviours"] = k // 2
    return cases
