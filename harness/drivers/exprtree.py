"""EXPRTREE -- tools/legalfloor/expression_tree.py as an algebra of its own.

TLC (ExprTree) enumerates pools of terms (two named variables, a raw GEKKO variable, constants, Python numbers,
+ - * / ** sqrt, numbers on either side) and histories of operations (assign / undo / undo on a term / set_gekko /
Equation), checks the contracts at design level and emits every pool / history.  The harness builds the same objects
with the real classes (two GEKKO models, new ones for re-homing), probes them (evaluate, get_variable_list,
get_string, get_gekko_expression evaluated at the variables' values, variable values and models after every
operation, Equation.surplus / slack / is_equation_met, the equations posted to GEKKO), snaps every float to the
rational with denominator <= 10^6 within 1e-9 relative, and ExprTreeTrace judges the observations.
"""
from __future__ import annotations

import contextlib
import io
import json
import math
import os
import random
import re
import shutil
import sys
import time
from fractions import Fraction as F

from ..core import Ctx, MachineryError, digest
from ..forkpool import prepare_imports, run_cases
from .. import tlc

SPEC = "ExprTree"
TRACE = "ExprTreeTrace"
UNIVERSES = {"quick": ["quick_terms", "quick_hist", "quick_eq"], "thorough": ["quick_terms", "quick_hist", "quick_eq", "thorough_terms", "thorough_hist", "thorough_eq"]}
# actions a universe cannot take (vacuity check of the others)
IGNORE = {"terms": ("StartOps", "Do", "AssignAny", "UndoAny", "UndoTermAny", "RehomeAny", "EquationAny", "Emit"),
          "hist": ("SqrtAny", "EquationAny", "Emit"),
          "eq": ("SqrtAny", "UndoTermAny", "RehomeAny", "Emit")}
TOL = 1e-9
CLAUSES = ["build", "eval", "gekko", "varlist", "string", "assign", "undo", "rehome",
           "eq_surplus", "eq_slack", "eq_met", "eq_gekko", "eq_apply"]


def snap(v) -> list[int]:
    """float -> [1, num, den] (within 1e-9 relative of num/den, den <= 10^6) or [2, 0, 1]."""
    if isinstance(v, bool) or not isinstance(v, (int, float)) or v != v or abs(v) > 1e9:
        return [2, 0, 1]
    fr = F(v).limit_denominator(10 ** 6)
    if abs(float(fr) - v) > TOL * max(1.0, abs(v)) or abs(fr.numerator) >= 2 ** 31:
        return [2, 0, 1]
    return [1, fr.numerator, fr.denominator]


def num(n: int, d: int, isint: int):
    return int(n) if isint and d == 1 else n / d


def gk_eval(text: str, env: dict) -> float:
    """Value of a GEKKO expression string at the variables' values (GEKKO writes powers as ^)."""
    return float(eval(text.replace("^", "**"), {"__builtins__": {}}, env))  # noqa: S307  (strings produced by GEKKO)


def gk_equation_true(text: str, env: dict) -> bool:
    if text in ("True", "False"):       # both sides constant: Python has already decided the comparison
        return text == "True"
    for sep, f in (("<=", lambda a, b: a <= b + 1e-6), (">=", lambda a, b: a >= b - 1e-6), ("=", lambda a, b: abs(a - b) <= 1e-6)):
        if sep in text:
            a, b = text.split(sep, 1)
            return f(gk_eval(a, env), gk_eval(b, env))
    raise ValueError(text)


def run_case(case: dict) -> dict:
    import tempfile
    from gekko import GEKKO
    from tools.legalfloor import expression_tree as et
    from tools.legalfloor.expression_tree import Cmp, Equation, ExpressionTree

    sys.setrecursionlimit(600)      # a corrupted variable recurses without end: fail fast
    et.named_variables.clear()
    tmp = tempfile.mkdtemp(prefix="xt")
    old_tmp = tempfile.tempdir
    tempfile.tempdir = tmp
    sink = io.StringIO()
    try:
        with contextlib.redirect_stdout(sink):
            models = [GEKKO(remote=False), GEKKO(remote=False)]
            pool, nl, same = case["pool"], case["nl"], case["same"]
            init = [F(q[0], q[1]) for q in case["init"]]
            names = ["v", "v"] if same else ["v1", "v2"]
            tv = [ExpressionTree.create_variable(models[0], float(init[i]), lb=-1e6, ub=1e6, name=names[i]) for i in range(2)]
            raw = models[0].Var(value=float(init[2]), name="r")
            obj = [None] * (len(pool) + 1)       # 1-based
            b = [0] * len(pool)
            for k, nd in enumerate(pool, start=1):
                try:
                    if nd["op"] == "var":
                        obj[k] = tv[nd["i"] - 1]
                    elif nd["op"] == "raw":
                        obj[k] = raw
                    elif nd["op"] == "cst":
                        obj[k] = ExpressionTree(models[nd["i"] - 1], num(nd["n"], nd["d"], 1))
                    elif nd["op"] == "scal":
                        obj[k] = num(nd["n"], nd["d"], nd["i"])
                    else:
                        if not b[nd["l"] - 1] or (nd["r"] and not b[nd["r"] - 1]):
                            b[k - 1] = 3
                            continue
                        x, y = obj[nd["l"]], obj[nd["r"]] if nd["r"] else None
                        obj[k] = {"add": lambda: x + y, "sub": lambda: x - y, "mul": lambda: x * y, "div": lambda: x / y,
                                  "pow": lambda: x ** y, "srt": lambda: et.sqrt(x)}[nd["op"]]()
                        if not isinstance(obj[k], ExpressionTree):
                            raise TypeError(f"result is a {type(obj[k]).__name__}")
                    b[k - 1] = 1
                except BaseException as e:  # noqa: BLE001
                    b[k - 1] = 0
                    obj[k] = None
            is_tree = [nd["op"] not in ("scal", "raw") for nd in pool]

            def model_of(t) -> int:
                for gi, g in enumerate(models):
                    if any(w is t.value for w in g._variables):
                        return gi + 1
                return 0

            def env():
                d = {"sqrt": math.sqrt, "r": float(et.value_of(raw))}
                for i in range(2):
                    d[tv[i].value.name] = tv[i].evaluate()
                return d

            def ev(t):
                try:
                    return snap(t.evaluate())
                except BaseException:  # noqa: BLE001
                    return [0, 0, 1]

            def var_index(t) -> int:
                for i in range(2):
                    if t.value is tv[i].value:
                        return i + 1
                return 3 if t.value is raw else 0

            p0 = []
            for k in range(1, len(pool) + 1):
                if not is_tree[k - 1] or b[k - 1] != 1:
                    continue
                t = obj[k]
                pr = {"k": k, "ev": ev(t)}
                try:
                    pr["vs"] = [var_index(x) for x in t.get_variable_list()]
                    pr["vst"] = 1
                except BaseException:  # noqa: BLE001
                    pr["vs"], pr["vst"] = [], 0
                try:
                    pr["str"] = int(isinstance(t.get_string(), str) and len(repr(t)) > 0)
                except BaseException:  # noqa: BLE001
                    pr["str"] = 0
                if same:
                    pr["gk"] = [4, 0, 1]        # both GEKKO variables are called "v": the string cannot be evaluated
                else:
                    try:
                        g = t.get_gekko_expression()
                        pr["gk"] = snap(g if isinstance(g, (int, float)) else gk_eval(str(g), env()))
                    except BaseException:  # noqa: BLE001
                        pr["gk"] = [0, 0, 1]
                p0.append(pr)
            comp = [k for k in range(nl + 1, len(pool) + 1) if b[k - 1] == 1]
            po = []
            for o in case["ops"]:
                ob = {"su": [4, 0, 1], "sl": [4, 0, 1], "met": 0, "neq": 0, "gt": 0, "met2": 0, "neq2": 0, "addn": 0, "addt": 0}
                try:
                    if o["op"] == "assign":
                        tv[o["a"] - 1].assign(o["n"] / o["d"])
                    elif o["op"] == "undo":
                        tv[o["a"] - 1].undo()
                    elif o["op"] == "undot":
                        obj[o["a"]].undo()
                    elif o["op"] == "rehome":
                        if o["b"] == 0:
                            models.append(GEKKO(remote=False))
                            obj[o["a"]].set_gekko(models[-1])
                        else:
                            obj[o["a"]].set_gekko(models[o["b"] - 1])
                    elif o["op"] == "eq":
                        et.set_epsilon(ExpressionTree(models[0], o["n"] / o["d"]))
                        q = Equation(obj[o["a"]], {"LE": Cmp.LE, "GE": Cmp.GE, "EQ": Cmp.EQ}[o["c"]], obj[o["b"]], "q", hard=bool(o["h"]))
                        ob["su"], ob["sl"], ob["met"] = snap(q.surplus()), snap(q.slack()), int(bool(q.is_equation_met()))
                        models.append(GEKKO(remote=False))
                        g = models[-1]
                        n0 = len(g._equations)
                        q.apply_equation(g)
                        ob["neq"] = len(g._equations) - n0
                        ob["gt"] = int(all(gk_equation_true(str(x), env()) for x in g._equations[n0:]))
                        ob["met2"] = int(bool(q.is_equation_met()))
                        n1 = len(g._equations)
                        q.apply_equation(g)
                        ob["neq2"] = len(g._equations) - n1
                        n2 = len(g._equations)
                        et.add_equation(g, obj[o["a"]], q.cmp, obj[o["b"]], "q", hard=bool(o["h"]))
                        ob["addn"] = len(g._equations) - n2
                        ob["addt"] = int(all(gk_equation_true(str(x), env()) for x in g._equations[n2:]))
                except BaseException:  # noqa: BLE001
                    ob["neq2"] = -1          # an operation raised: the trace specification sees it on the probes below
                ob["v1"], ob["v2"] = ev(tv[0]), ev(tv[1])
                ob["h1"], ob["h2"] = model_of(tv[0]), model_of(tv[1])
                ob["ev"] = [[k] + ev(obj[k]) for k in comp]
                po.append(ob)
            return {"b": b, "p0": p0, "po": po}
    finally:
        tempfile.tempdir = old_tmp
        shutil.rmtree(tmp, ignore_errors=True)


def _phase(ctx: Ctx, name: str, t0: float):
    ctx.extra.setdefault("phase_s", {})[name] = round(time.time() - t0, 1)


def decide(ctx: Ctx, cases: list[dict], source: str) -> int:
    prepare_imports()
    import gekko  # noqa: F401  (imported in the parent, used only in the children)
    import tools.legalfloor.expression_tree  # noqa: F401
    t0 = time.time()
    results = run_cases(run_case, cases, nproc=int(os.environ.get("VERIF_NPROC", "16")), case_timeout=300)
    _phase(ctx, f"run_{source}", t0)
    traces = {}
    for c, (st, val) in zip(cases, results):
        if st != "ok":
            ctx.violation("no_result", {"case": c}, {"status": st}, {"clause": "no_result", "why": "none"})
            continue
        ctx.count(n=len(val["p0"]) + len(val["po"]))
        t = {"pool": c["pool"], "nl": c["nl"], "same": c["same"], "init": c["init"], "ops": c["ops"], **val}
        key = digest(t)
        t["id"] = key
        traces[key] = t
    t0 = time.time()
    verdicts = tlc.validate_traces(ctx, TRACE, TRACE, list(traces.values()), chunk=8000)
    _phase(ctx, f"judge_{source}", t0)
    for key, v in verdicts.items():
        t = traces[key]
        ctx.count(key, nontrivial=len(t["pool"]) > t["nl"], n=0)
        case = {"pool": t["pool"], "nl": t["nl"], "same": t["same"], "init": t["init"], "ops": t["ops"]}
        for (l, clause, k, why) in v["fails"]:
            obs = t["po"][l - 1] if l > 0 else [p for p in t["p0"] if p["k"] == k] or {"built": t["b"][k - 1]}
            ctx.violation(clause, case, {"at_operation": l, "node": k, "operation": t["ops"][l - 1] if l > 0 else "construction",
                                         "observed": obs},
                          {"clause": clause, "why": why, "op": t["ops"][l - 1]["op"] if l > 0 else "build"})
        for (_l, what) in v["drift"]:
            ctx.model_drift(f"{what}: undo() restores the checkpoint (creation / last set_gekko), not the value before the last assign")
    dump = os.environ.get("VERIF_DUMP")
    if dump:    # development aid: a few examples per (clause, why)
        ex: dict = {}
        for v in ctx.violations:
            ex.setdefault(f"{v['clause']}/{v['features'].get('why')}", [])
            if len(ex[f"{v['clause']}/{v['features'].get('why')}"]) < 3:
                ex[f"{v['clause']}/{v['features'].get('why')}"].append(v)
        json.dump(ex, open(dump + "." + source, "w"), indent=1, default=str)
    for t in list(traces.values())[:2]:
        ctx.sample({"pool": t["pool"][t["nl"]:], "ops": t["ops"], "p0": t["p0"][-1:], "po": t["po"][:1], "source": source})
    return len(traces)


# ------------------------------------------------------------------------------------------------ random driver
def random_case(rng: random.Random) -> dict:
    """Deeper, balanced terms (up to 7 operator applications over any earlier node) and longer histories; what lies
    outside the universe (undefined / too large values) is not judged by the trace specification."""
    leaves = [{"op": "var", "l": 0, "r": 0, "n": 0, "d": 1, "i": 1}, {"op": "var", "l": 0, "r": 0, "n": 0, "d": 1, "i": 2}]
    for (n, d) in rng.sample([(3, 1), (1, 4), (2, 1), (-1, 1), (5, 2)], 2):
        leaves.append({"op": "cst", "l": 0, "r": 0, "n": n, "d": d, "i": 1})
    for (n, d, i) in rng.sample([(2, 1, 1), (-1, 2, 0), (3, 1, 0), (1, 1, 1), (0, 1, 1)], 2):
        leaves.append({"op": "scal", "l": 0, "r": 0, "n": n, "d": d, "i": i})
    pool = list(leaves)
    nl = len(pool)
    for _ in range(rng.randint(2, 7)):
        trees = [k for k, nd in enumerate(pool, start=1) if nd["op"] != "scal"]
        if rng.random() < 0.1:
            pool.append({"op": "srt", "l": rng.choice(trees), "r": 0, "n": 0, "d": 1, "i": 0})
            continue
        op = rng.choice(["add", "sub", "mul", "div", "pow", "add", "mul"])
        l = rng.choice(trees)                      # numbers on the right only: the left-number defect is covered by TLC
        r = rng.randint(1, len(pool))
        if op == "pow":
            r = rng.choice([k for k, nd in enumerate(pool, start=1) if nd["op"] in ("scal", "cst")])
        pool.append({"op": op, "l": l, "r": r, "n": 0, "d": 1, "i": 0})
    vals = [(0, 1), (9, 4), (-3, 1), (1, 1), (4, 1), (1, 9)]
    init = [list(rng.choice(vals)) for _ in range(3)]
    ops = []
    comp = list(range(nl + 1, len(pool) + 1))
    rehomed = False
    for _ in range(rng.randint(1, 6)):
        kind = rng.choice(["assign", "assign", "undo", "undot", "rehome", "eq"])
        if kind in ("undo", "undot") and not rehomed:
            kind = "rehome"                        # undo before any set_gekko is covered by TLC (it corrupts the variable)
        z = {"op": kind, "a": 0, "b": 0, "n": 0, "d": 1, "c": "", "h": 0}
        if kind == "assign":
            q = rng.choice(vals)
            z.update(a=rng.randint(1, 2), n=q[0], d=q[1])
        elif kind == "undo":
            z.update(a=rng.randint(1, 2))
        elif kind in ("undot", "rehome"):
            z.update(a=rng.choice(comp))
            rehomed = rehomed or kind == "rehome"
        else:
            e = rng.choice([(0, 1), (1, 4), (1, 2), (1, 10000000)])
            z.update(a=rng.choice(comp), b=rng.choice([k for k, nd in enumerate(pool, start=1) if nd["op"] != "scal"]),
                     c=rng.choice(["LE", "GE", "EQ"]), h=rng.randint(0, 1), n=e[0], d=e[1])
            ops.append(z)
            break
        ops.append(z)
    return {"pool": pool, "nl": nl, "same": 0, "init": init, "ops": ops}


def run(ctx: Ctx) -> int:
    tier = ctx.tier
    if ctx.replay:
        c = json.load(open(ctx.replay))["case"]
        decide(ctx, [c], "replay")
        return ctx.finish("model_checking", "replay of one recorded pool + history")
    for u in UNIVERSES[tier]:
        tlc.model_check(ctx, SPEC, f"{SPEC}_mc_{u}", vacuity_ignore=IGNORE[u.split("_")[1]])
    res = tlc.run_tlc(ctx, SPEC, f"{SPEC}_mc_stack", expect_ok=False, tag="mc-must-fail")
    if res["ok"] or "InvUndo is violated" not in res["stdout"]:
        raise MachineryError("the stack model of undo does not violate InvUndo")
    cases = []
    for u in UNIVERSES[tier]:
        got = tlc.generate(ctx, SPEC, f"{SPEC}_gen_{u}")
        ctx.extra.setdefault("cases_per_universe", {})[u] = len(got)
        cases += got
    ntr = decide(ctx, cases, "tlc")
    rng = random.Random(ctx.seed * 1000003 + 4711)
    rcases = [random_case(rng) for _ in range(400 if tier == "quick" else 6000)]
    ntr += decide(ctx, rcases, "random")
    ctx.extra["cases_from_tlc"] = len(cases)
    ctx.extra["cases_random"] = len(rcases)
    ctx.extra["distinct_traces"] = ntr
    ctx.assumptions += [
        "values are exact rationals in the specification; an observed float is accepted as the rational with denominator <= 10^6 "
        "that lies within 1e-9 (relative) of it, anything else is reported as off the universe (status 2)",
        "universe: ** with exponents 0..3, sqrt on perfect squares, no division by zero, |num|, den <= 20000; other terms are not judged",
        "epsilon is set with set_epsilon before every Equation; Equation methods without any set_epsilon are not exercised",
        "GEKKO expressions / equations are evaluated from their string form at the variables' values (tolerance 1e-6 as in "
        "is_equation_met); not evaluated when both variables carry the same GEKKO name",
        "no solver run; aux-variable splitting of get_gekko_expression (size > 50) is not reached",
    ]
    return ctx.finish(
        "model_checking",
        "TLC enumerates every pool of <= 2 (quick) / 3 (thorough) operator applications over the catalogues, every history of 3 / 4 "
        "operations on the one-application pools and every (optional assign, Equation) on them; evaluations = probes of the real objects "
        "(one per probed node after construction, one per operation); distinct non-trivial = distinct judged traces with a composite node",
        exhaustive=False)
