"""C16 -- Pseudo-Boolean expression algebra preserves integer semantics.

TLC (PBExpr) visits every normal form of a bounded box, applies every operation of the alphabets to it,
checks the property as invariants, and (EMIT) prints every reachable state.  For each state the driver
realises the state on the real Literal/Term/Expr classes (canonical build: constant, then the terms in
order) and applies every operation of the alphabet to it (a "fan" of one-step conformance tests), under
several SPELLINGS of the same operation (Term constructor, k*Literal, -Term, Literal + x, Ineq(..) ...;
the spelling plays the role the float embeddings play for the geometric checks).  After every call the
result and both operands are read back through the public attributes (Expr.c, Expr.t, Ineq.lhs/rhs/op)
and TLC (PBExprTrace) judges every observation: value under every assignment, positive coefficients,
one entry per variable, inequality <=> direct comparison, operands unchanged.
A seeded random driver adds long cumulative builds (5 variables, big coefficients, nested expressions)
through the same path.
"""
from __future__ import annotations

import json
import random

from ..core import Ctx, MachineryError, digest
from ..forkpool import prepare_imports, run_cases
from .. import tlc

FORMS = ["ctor", "ops", "neg", "tmul"]
VARS5 = ["a", "b", "c", "d", "e"]


# --------------------------------------------------------------------------- real code (children only)
def _nf(x):
    """Read an expression back through its public attributes: [c, [[var, sign, coef] ..]]."""
    from tools.rect.pseudobool import Expr
    if not isinstance(x, Expr):       # a bare Literal / Term (spelling "ops"): what any consumer makes of it
        x = Expr() + x
    return {"c": int(x.c), "t": [[str(x.t[v].L.v), int(bool(x.t[v].L.s)), int(x.t[v].c)] for v in x.t]}


def _lit(form, v, s):
    from tools.rect.pseudobool import Literal
    if form == "ops":
        return Literal(v) if s else -Literal(v)
    if form == "neg":
        return -Literal(v, not bool(s))
    return Literal(v, bool(s))


def _term(form, v, s, k):
    from tools.rect.pseudobool import Literal, Term
    if form == "ops":
        lit = _lit(form, v, s)
        return k * lit if k % 2 else lit * k
    if form == "neg":
        return -Term(Literal(v, bool(s)), -k)
    if form == "tmul":
        t = Term(Literal(v, bool(s)), 1)
        return t * k if k % 2 else k * t
    return Term(Literal(v, bool(s)), k)


def _apply(form, e1, e2, ev, alias):
    """-> (result, order_comparable).  e1 may be a bare Literal/Term under spelling "ops"."""
    from tools.rect.pseudobool import Expr, Ineq, Literal, Term
    op, v, s, k = ev["op"], ev["v"], ev["s"], ev["k"]
    bare = not isinstance(e1, Expr)
    if op == "push":
        return Expr(), 1
    if op in ("add_lit", "add_term", "add_const"):
        x = _lit(form, v, s) if op == "add_lit" else _term(form, v, s, k) if op == "add_term" else k
        if form == "ops" and op != "add_const":
            if not bare and not e1.t and e1.c == 0 and ev["keep"] == 1:
                return x, 1                     # start the expression from the bare Literal / Term
            if not bare and ev.get("comm", 0):
                return x + e1, 0                # Literal.__add__(Expr) / Term.__add__(Expr): commuted
            if op == "add_lit" and s == 1 and ev.get("str", 1):
                x = v                           # a variable may be named by a plain string
        if bare and op == "add_const" and ev.get("comm", 0):
            return k + e1, 1                    # Literal.__radd__ / Term.__radd__
        return e1 + x, 1                        # Expr.__add__ / Literal.__add__ / Term.__add__
    if bare and op == "mul":
        return (k * e1 if form == "ops" else e1 * k), 1   # Literal.__mul__ -> Term, Term.__mul__
    if bare and op != "cmp":
        e1 = Expr() + e1                        # Literal / Term have no __sub__: materialise first
    if op == "sub_lit":
        return e1 - (v if (form == "ops" and s == 1) else _lit(form, v, s)), 1
    if op == "sub_term":
        return e1 - _term(form, v, s, k), 1
    if op == "sub_const":
        return e1 - k, 1
    if op == "mul":
        return (k * e1 if form in ("ops", "tmul") else e1 * k), 1
    other = e1 if alias else e2
    if op == "add_expr":
        return e1 + other, 1
    if op == "sub_expr":
        return e1 - other, 1
    if op == "cmp":
        c = ev["cmp"]
        if form in ("neg", "tmul") and not bare:
            return Ineq(e1, other, "==" if (c == "=" and form == "neg") else c), 1
        if form == "ops" and isinstance(other, Expr) and not other.t:
            other = int(other.c)                # e1 >= 3
        if c == ">=":
            return e1 >= other, 1
        if c == "<=":
            return e1 <= other, 1
        if c == ">":
            return e1 > other, 1
        if c == "<":
            return e1 < other, 1
        return e1 == other, 1
    raise ValueError(op)


def run_case(case):
    """Replay the events of one case under every requested spelling.
    -> {form: [per event {exc, ord, obs, o1, o2}]}"""
    from tools.rect.pseudobool import Expr, Ineq
    out = {}
    for form in case["forms"]:
        e1, e2 = Expr(), Expr()
        obs = []
        for ev in case["events"]:
            rec = {"exc": 0, "ord": 1, "obs": {"c": 0, "t": [], "rhs": 0, "op": ""}}
            r = None
            try:
                r, rec["ord"] = _apply(form, e1, e2, ev, case.get("alias", 0))
                if ev["op"] == "cmp":
                    if not isinstance(r, Ineq):
                        raise TypeError(f"comparison returned {type(r).__name__}")
                    o = _nf(r.lhs)
                    rec["obs"] = {"c": o["c"], "t": o["t"], "rhs": int(r.rhs), "op": str(r.op)}
                else:
                    o = _nf(r)
                    rec["obs"] = {"c": o["c"], "t": o["t"], "rhs": 0, "op": ""}
            except Exception as e:  # every operation here is inside the API's domain: raising is a failure
                rec["exc"] = 1
                rec["err"] = f"{type(e).__name__}: {e}"
            rec["o1"], rec["o2"] = _nf(e1), _nf(e2)
            obs.append(rec)
            if ev["keep"] == 1 and not rec["exc"]:
                if ev["op"] == "push":
                    e2, e1 = (e1 if isinstance(e1, Expr) else Expr() + e1), r
                elif ev["op"] != "cmp":
                    e1 = r
        out[form] = obs
    return out


# --------------------------------------------------------------------------- cases
def ev(op, v="", s=1, k=0, cmp="", keep=1, **kw):
    d = {"op": op, "v": v, "s": s, "k": k, "cmp": cmp, "keep": keep}
    d.update(kw)
    return d


def canonical_build(nf):
    out = []
    if nf["c"] != 0:
        out.append(ev("add_const", k=nf["c"]))
    for (v, s, k) in nf["t"]:
        out.append(ev("add_term", v=v, s=s, k=k))
    return out


def cases_from_states(printed):
    """TLC prints one record per reachable state plus once the operation alphabets."""
    ops = [p for p in printed if "single" in p]
    states = [p for p in printed if "e1" in p]
    if len(ops) != 1 or not states:
        raise MachineryError("PBExpr generation did not print the alphabets / states as expected")
    single = sorted(ops[0]["single"], key=json.dumps)
    pair = sorted(ops[0]["pair"], key=json.dumps)
    cases = []
    for st in states:
        if st["second"] == 0:
            events = canonical_build(st["e1"])
            fan = single
        else:
            events = canonical_build(st["e2"]) + [ev("push")] + canonical_build(st["e1"])
            fan = pair
        for i, o in enumerate(fan):
            events = events + [ev(o["op"], o["v"], o["s"], o["k"], o["cmp"], keep=0, comm=i % 2)]
        c = {"events": events, "forms": FORMS, "src": "tlc"}
        cases.append(c)
        if st["second"] == 1 and st["e1"] == st["e2"]:
            cases.append({"events": events, "forms": ["ctor"], "alias": 1, "src": "tlc"})   # e + e, e - e, e >= e
    return cases


def random_cases(rng: random.Random, n: int) -> list[dict]:
    """Long cumulative builds: 5 variables, coefficients to +-60, constants to +-100, multipliers to +-9,
    nested expressions (push / add_expr / sub_expr kept), comparisons sprinkled in."""
    cases = []
    for _ in range(n):
        events, muls = [], 0
        nv = rng.randint(1, 5)
        vs = VARS5[:nv]
        for _ in range(rng.randint(8, 36)):
            r = rng.random()
            v, s = rng.choice(vs), rng.randint(0, 1)
            k = rng.choice([0, 1, -1, 2, -2, 3, rng.randint(-60, 60)])
            if r < 0.14:
                e = ev("add_lit", v, s, 1)
            elif r < 0.24:
                e = ev("sub_lit", v, s, 1)
            elif r < 0.42:
                e = ev("add_term", v, s, k)
            elif r < 0.58:
                e = ev("sub_term", v, s, k)
            elif r < 0.66:
                e = ev("add_const", k=rng.randint(-100, 100))
            elif r < 0.72:
                e = ev("sub_const", k=rng.randint(-100, 100))
            elif r < 0.80 and muls < 4:
                muls += 1
                e = ev("mul", k=rng.choice([0, 1, -1, 2, -2, 3, -3, 5, -7, 9]))
            elif r < 0.86:
                e = ev("push")
            elif r < 0.90:
                e = ev("add_expr")
            elif r < 0.94:
                e = ev("sub_expr")
            else:
                e = ev("cmp", cmp=rng.choice([">=", "<=", ">", "<", "="]), keep=0)
            e["comm"] = rng.randint(0, 1)
            e["str"] = rng.randint(0, 1)
            if rng.random() < 0.15 and e["op"] not in ("push", "cmp"):
                e["keep"] = 0
            events.append(e)
        for c in (">=", "<=", ">", "<", "="):
            events.append(ev("cmp", cmp=c, keep=0))
        cases.append({"events": events, "forms": FORMS, "src": "random"})
    return cases


def _interesting(events) -> bool:
    """An event that exercises normalisation: a variable met again, a negative coefficient or multiplier,
    or a two-expression operation."""
    seen = set()
    for e in events:
        if e["op"] in ("add_expr", "sub_expr", "cmp"):
            return True
        if e["op"] == "mul" and e["k"] <= 0:
            return True
        if e["op"] in ("sub_lit", "sub_term") or (e["op"] == "add_term" and e["k"] <= 0):
            return True
        if e["op"] in ("add_lit", "add_term"):
            if e["v"] in seen:
                return True
            if e["keep"] == 1:
                seen.add(e["v"])
        if e["op"] == "push":
            seen = set()
    return False


def decide(ctx: Ctx, cases: list[dict], cfg: str = "PBExprTrace"):
    """cfg selects the variable set the truth tables range over: PBExprTrace2 {a,b}, PBExprTrace3 {a,b,c},
    PBExprTrace {a..e} (the fewer variables, the cheaper TLC's judgement)."""
    prepare_imports()
    import tools.rect.pseudobool  # noqa: F401  (imported in the parent, used only in forked children)
    results = run_cases(run_case, cases, nproc=16)
    traces, owners = {}, {}
    for c, (st, val) in zip(cases, results):
        if st != "ok":
            ctx.violation("no_result", {"case": c}, {"status": st}, {"op": "no_result"})
            continue
        for form, obs in val.items():
            evs = []
            for e, o in zip(c["events"], obs):
                ctx.count()
                evs.append({"op": e["op"], "v": e["v"], "s": e["s"], "k": e["k"], "cmp": e["cmp"], "keep": e["keep"],
                            "exc": o["exc"], "ord": o["ord"], "obs": o["obs"], "o1": o["o1"], "o2": o["o2"]})
            t = {"events": evs}
            key = digest(t)
            if key not in traces:
                t["id"] = key
                traces[key] = t
                owners[key] = {"forms": [], "case": c, "errs": [o.get("err") for o in obs]}
            owners[key]["forms"].append(form)
    verdicts = tlc.validate_traces(ctx, "PBExprTrace", cfg, list(traces.values()), chunk=1500)
    for key, v in verdicts.items():
        t, own = traces[key], owners[key]
        ctx.count(key, nontrivial=_interesting(t["events"]), n=0)
        if v["fails"]:
            # only the first failing event is reported: later ones are computed from an already wrong object
            first = min(l for (l, _c) in v["fails"])
            e = t["events"][first - 1]
            prefix = [x for x in own["case"]["events"][:first - 1] if x["keep"] == 1] + [own["case"]["events"][first - 1]]
            for (l, clause) in v["fails"]:
                if l != first:
                    continue
                has_const = int(e["o1"]["c"] != 0)
                ctx.violation(clause,
                              {"events": prefix, "forms": own["forms"][:1], "alias": own["case"].get("alias", 0)},
                              {"event": {k: e[k] for k in ("op", "v", "s", "k", "cmp")}, "before": e["o1"], "other": e["o2"],
                               "observed": e["obs"], "error": own["errs"][first - 1], "spellings": own["forms"]},
                              {"op": e["op"], "clause": clause, "operand_const_nonzero": has_const})
        first_fail = min((l for (l, _c) in v["fails"]), default=10 ** 9)
        for (l, op) in v["drift"]:
            if l < first_fail:
                ctx.model_drift(f"{op}: normal form differs from the model's (same value; e.g. term order)")
    for t in list(traces.values())[:3]:
        ctx.sample({"trace": {"events": t["events"][:6]}, "spellings": owners[t["id"]]["forms"]})
    return len(traces)


def run(ctx: Ctx) -> int:
    if ctx.replay:
        rec = json.load(open(ctx.replay))
        c = rec["case"]
        decide(ctx, [{"events": c["events"], "forms": c.get("forms") or FORMS, "alias": c.get("alias", 0), "src": "replay"}])
        return ctx.finish("model_checking", "replay of one recorded case")
    tier = ctx.tier
    # SubConst / SubLit / SubTerm only re-find states AddConst / AddTerm found first (0 *new* states in TLC's
    # coverage), so their vacuity is checked on the number of states they generated instead
    dup = ("SubConst", "SubLit", "SubTerm", "AddLit")
    res = tlc.model_check(ctx, "PBExpr", f"PBExpr_mc_{tier}", vacuity_ignore=("Emit", "EmitOps") + dup)
    idle = [n for (n, _new, gen) in res["coverage"] if n in dup and gen == 0]
    if idle:
        raise MachineryError(f"vacuous model: actions never taken in PBExpr: {idle}")
    printed = tlc.generate(ctx, "PBExpr", f"PBExpr_gen_{tier}")
    cases = cases_from_states(printed)
    n_tlc = len(cases)
    rng = random.Random(ctx.seed * 1000003 + 16)
    rnd = random_cases(rng, 300 if tier == "quick" else 4000)
    ntr = decide(ctx, cases, "PBExprTrace2" if tier == "quick" else "PBExprTrace3")
    ntr += decide(ctx, rnd, "PBExprTrace")
    ctx.extra["spellings"] = FORMS
    ctx.extra["cases_from_tlc"] = n_tlc
    ctx.extra["random_cases"] = len(rnd)
    ctx.extra["distinct_traces"] = ntr
    ctx.assumptions += [
        "operations exercised: the public overloads of Literal, Term, Expr (+, -, integer *, unary - of Literal/Term, "
        "comparisons, Ineq constructor); int operands only (the statement says integer constants / multiples)",
        "Literal/Term have no __sub__ and Expr no __radd__/__neg__: spellings that Python itself rejects with TypeError "
        "build nothing and are not generated",
        "each operation is tried under 4 spellings (constructor, operator overloads incl. bare Literal/Term starts and "
        "commuted Literal + Expr, negated Term, Term * k); observations that coincide are judged once",
    ]
    return ctx.finish(
        "model_checking",
        "TLC enumerates every normal form of the box and prints it; the driver applies every operation of the alphabets "
        "to each (one evaluation = one operation under one spelling); distinct = distinct observation traces judged by "
        "TLC; non-trivial = traces with an event that exercises normalisation (variable met again, negative "
        "coefficient/multiplier, subtraction, or a two-expression operation)",
        exhaustive=False)
