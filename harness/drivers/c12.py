"""C12 -- Refinement decisions are consistent, exact and terminate.

Same behaviours and observation path as C02 (TLC-generated compositions from Alloc.tla + random allocations incl.
empty occupancy maps and layouts with different numbers of x- and y-boundaries); TLC (AllocTrace) judges the C12
clauses: must_be_refined(t) <=> refine(t) changes the allocation (at every iteration of the refine-while-needed
loop), refine splits precisely the selected cells into 2^levels equal halvings with depth + levels and leaves the
rest, uniform refinement ends with every refinable cell at the former maximum depth, griddify ends aligned.
"""
from __future__ import annotations

from ..core import Ctx
from .alloc_common import C12_CLAUSES
from . import c02


def run(ctx: Ctx) -> int:
    return c02.run(ctx, clauses=C12_CLAUSES, salt=12)
