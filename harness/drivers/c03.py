"""C03 -- The initial allocation equals the exact geometric overlap.

TLC (InitAlloc) enumerates die descriptions x netlists of movable modules (soft with a rectangle, soft without =
square around its centre, hard; overlapping, sticking out of the die) x the include-zero option, checks the
consequences the statement draws as invariants, and emits the cases; each is built as a real Die + Netlist under
seven embeddings (optionally refined by split_refinable_regions first), create_initial_allocation is called, and
TLC (InitAllocTrace) recomputes every ratio as covered area / cell area on the cells the real Die reported.
Random larger dies/netlists (two-rectangle shapes, several fixed modules) follow the same path.
"""
from __future__ import annotations

import json
import random
from fractions import Fraction as F

from ..core import Ctx, digest
from ..forkpool import prepare_imports, run_cases
from ..lattice import ORIGIN0 as _O0, EMBEDDINGS, EXACT, OffLattice

# seven origin-0 embeddings plus the small-magnitude one (1e-6 units: FRAME's area tolerance exceeds small overlaps there)
ORIGIN0 = _O0 + ["micro", "mega"]
from .. import tlc
from .die_common import random_description


def build_netlist(emb, mods, tags=None):
    """mods: [[kind, [[x1,y1,x2,y2],...]], ...] (micro-units).  Returns the netlist dict; module i is named N<i+1>.
    tags: {str(i): region name} -- the rectangles of soft module i are written with that region as fifth value (the
    statement is about covered area whatever region a rectangle of the module is assigned to)"""
    out = {}
    tags = tags or {}
    for i, (kind, rects) in enumerate(mods):
        name = f"N{i + 1}"
        rl = [emb.rect(r) for r in rects]
        if kind == "soft" and str(i) in tags and tags[str(i)].lstrip("+"):
            rl = [r + [tags[str(i)].lstrip("+")] for r in rl]
        if kind == "softsq":
            x1, y1, x2, y2 = rects[0]
            out[name] = {"area": emb.area((x2 - x1) * (y2 - y1)), "center": [emb.coord((x1 + x2) / 2), emb.coord((y1 + y2) / 2)]}
        elif kind == "soft":
            # (tags value "+R": the declared area is 9/4 of what the rectangles cover -- an intermediate floorplan; the
            #  statement speaks of the area covered by the module's rectangles, whatever area it declares)
            k = 9 if str(i) in tags and tags[str(i)].startswith("+") else 4
            out[name] = {"area": emb.area(F(k, 4) * sum((r[2] - r[0]) * (r[3] - r[1]) for r in rects)), "rectangles": rl}
        elif kind == "hard":
            out[name] = {"hard": True, "rectangles": rl}
        elif kind == "fixed":
            out[name] = {"fixed": True, "rectangles": rl}
        else:
            raise ValueError(kind)
    return {"Modules": out, "Nets": []}


def observe_alloc(emb, a):
    obs = []
    for ra in a.allocations:
        rect = emb.back_rectangle(ra.rect)
        area = (rect[2] - rect[0]) * (rect[3] - rect[1])
        ents = []
        for name, v in ra.alloc.items():
            k = round(v * area)
            if abs(v * area - k) > 1e-6 * max(1.0, area):
                raise OffLattice(f"ratio {v!r} of {name} in cell {rect} is not covered/area on the lattice")
            ents.append([int(name[1:]), k])
        obs.append(rect + [int(bool(ra.rect.fixed)), sorted(ents)])
    return obs


def run_case(case):
    from frame.geometry.geometry import Rectangle
    from frame.die.die import Die
    from frame.netlist.netlist import Netlist
    from frame.allocation.allocation import create_initial_allocation
    res = {}
    for en in case["embs"]:
        emb = EMBEDDINGS[en]
        Rectangle.undefine_epsilon()
        try:
            ddict = {"width": emb.length(case["dw"]), "height": emb.length(case["dh"])}
            regions = [emb.rect(t) + [t[4]] for t in case["regs"] if t[4] != "F"]
            if regions:
                ddict["regions"] = regions
            try:
                tree = build_netlist(emb, case["mods"], case.get("tags"))
                life = case.get("life")
                if life == "assign":
                    # the modules are loaded somewhere else and brought to their place through the API before the die exists
                    target = {n: [list(r) for r in m["rectangles"]] for n, m in tree["Modules"].items() if "rectangles" in m}
                    for m in tree["Modules"].values():
                        if "rectangles" in m:
                            m["rectangles"] = [[r[0] + r[2], r[1] + 2 * r[3]] + r[2:] for r in m["rectangles"]]
                    net = Netlist(tree)
                    net.assign_rectangles(target)
                elif life == "twice":
                    Netlist(tree)            # the same description object serves two netlists; the second one is used
                    net = Netlist(tree)
                else:
                    net = Netlist(tree)
                for j in case.get("release", []):
                    # a fixed module released through the API before the die is built: it is then an ordinary hard module
                    net.get_module(f"N{j + 1}").is_fixed = False
                die = Die(ddict, net)
                pre = case.get("pre")
                if pre:
                    if pre[0] == "split":
                        die.split_refinable_regions(pre[1] / pre[2], pre[3])
                    else:
                        die.initial_grid(pre[1], pre[2])
            except Exception as e:
                res[en] = {"setup": f"{type(e).__name__}: {e}"[:160]}
                continue
            refinable, fixed = die.floorplanning_rectangles()
            t = {"refinable": [emb.back_rectangle(r) for r in refinable],
                 "fixedcells": [emb.back_rectangle(r) for r in fixed]}
            try:
                a = create_initial_allocation(die, bool(case["zero"]))
                t["ok"] = 1
            except Exception as e:
                t["ok"] = 0
                t["why"] = f"{type(e).__name__}: {e}"[:160]
                t["obs"] = []
                res[en] = t
                continue
            t["obs"] = observe_alloc(emb, a)
            res[en] = t
            mv = case.get("move")
            if mv:
                # history on the live objects: a hard module is moved through the API (centre + recenter_rectangles, in
                # place) and the netlist is allocated again on the same die: the second allocation is for the NEW position
                from frame.geometry.geometry import Point
                i, dx, dy = mv
                m = net.get_module(f"N{i + 1}")
                t2 = {"refinable": t["refinable"], "fixedcells": t["fixedcells"]}
                try:
                    m.center = Point(m.center.x + emb.length(dx), m.center.y + emb.length(dy))
                    m.recenter_rectangles()
                    a2 = create_initial_allocation(die, bool(case["zero"]))
                    t2["ok"] = 1
                    t2["obs"] = observe_alloc(emb, a2)
                except OffLattice:
                    raise
                except Exception as e:
                    t2.update(ok=0, why=f"{type(e).__name__}: {e}"[:160], obs=[])
                res[en + "+moved"] = t2
        except OffLattice as e:
            res[en] = {"off": str(e)}
    return res


def covers_refinable(case, i) -> bool:
    """does module i touch some cell that is not under a blockage / fixed rectangle? (python pre-filter only; the
    quantifier of the no-zero variant needs it)"""
    def ov(a, b):
        return min(a[2], b[2]) > max(a[0], b[0]) and min(a[3], b[3]) > max(a[1], b[1])
    W, H = case["dw"], case["dh"]
    hard = [t for t in case["regs"] if t[4] in ("#", "F")]
    # sample on the grid of all boundary coordinates
    xs = sorted({0, W} | {t[0] for t in hard} | {t[2] for t in hard})
    ys = sorted({0, H} | {t[1] for t in hard} | {t[3] for t in hard})
    for r in case["mods"][i][1]:
        for a, b in zip(xs, xs[1:]):
            for c, d in zip(ys, ys[1:]):
                cell = [a, c, b, d]
                if any(ov(cell, t) for t in hard):
                    continue
                if ov(cell, r):
                    return True
    return False


def add_fixed(mods, regs, rng):
    """the 'F' regions of the description are the rectangles of fixed modules: one module each, or (half of the cases with
    two or more of them) ONE fixed module made of all of them -- its rectangles are disjoint, as a valid die requires"""
    fr = [t[:4] for t in regs if t[4] == "F"]
    if len(fr) >= 2 and rng.random() < 0.5:
        mods.append(["fixed", fr])
    else:
        for r in fr:
            mods.append(["fixed", [r]])


def to_case(g, rng, embs=ORIGIN0):
    """TLC case -> harness case; every 'F' region becomes its own fixed module appended to the module list"""
    mods = [[m[0], [list(r) for r in m[1]]] for m in g["mods"]]
    regs = [list(t) for t in g["regs"]]
    add_fixed(mods, regs, rng)
    case = {"dw": g["dw"], "dh": g["dh"], "regs": regs, "mods": mods, "zero": g["zero"], "embs": list(embs)}
    if rng.random() < 0.35:
        case["pre"] = ["split", *rng.choice([(3, 2), (2, 1), (71, 50)]), rng.randint(2, 9)]
    return case


def add_tags(case, rng):
    """some soft modules get their rectangles assigned to a named region (that of the die's specialised cells, or another)"""
    tags = {str(i): rng.choice(["R1", "R2", "R2", "+", "+", "+R2"]) for i, m in enumerate(case["mods"]) if m[0] == "soft" and rng.random() < 0.35}
    if tags:
        case["tags"] = tags
    u = rng.random()
    if u < 0.15:
        case["life"] = "assign"
    elif u < 0.3:
        case["life"] = "twice"
    return case


def in_quantifier(case) -> bool:
    """without the include-zero option the statement covers only netlists in which every module touches a cell;
    with it, a module touching no refinable cell has total allocated area 0, which no Allocation can represent
    (see DESIGN: known limitation) -- those are generated and judged (clause `returns`)."""
    movable = [i for i, m in enumerate(case["mods"]) if m[0] != "fixed"]
    blocked = sum((t[2] - t[0]) * (t[3] - t[1]) for t in case["regs"] if t[4] == "#")
    if blocked >= case["dw"] * case["dh"]:
        return False        # a completely blocked die has no cell at all: there is no allocation to speak of
    if case["zero"] == 0:
        return all(covers_refinable(case, i) for i in movable)
    return True


def random_case(rng: random.Random):
    d = random_description(rng, valid_bias=1.0)
    U = 32
    regs = [[t[0] * U, t[1] * U, t[2] * U, t[3] * U, t[4]] for t in d["regs"]]
    W, H = d["dw"] * U, d["dh"] * U
    mods = []
    if rng.random() < 0.4:
        # a module covering the whole die (or its left / lower half): some cells are then COMPLETELY covered while
        # other modules overlap them too -- overlapping modules are in the quantifier
        big = rng.choice([[0, 0, W, H], [0, 0, 16 * (W // 32), H], [0, 0, W, 16 * (H // 32)]])
        mods.append([rng.choice(["soft", "hard"]), [big]])
    for _ in range(rng.randint(1, 4)):
        kind = rng.choice(["soft", "soft", "hard", "softsq"])
        if kind == "softsq":
            s = 16 * rng.randint(1, 8)
            cx, cy = 16 * rng.randint(0, W // 16), 16 * rng.randint(0, H // 16)   # may stick out on any side
            mods.append([kind, [[cx - s // 2, cy - s // 2, cx + s // 2, cy + s // 2]]])
            continue
        x1, y1 = 8 * rng.randint(0, W // 8), 8 * rng.randint(0, H // 8)
        w, h = 8 * rng.randint(1, 12), 8 * rng.randint(1, 12)
        rects = [[x1, y1, x1 + w, y1 + h]]
        if rng.random() < 0.5:      # a second, disjoint rectangle abutting the first on the right
            h2 = 8 * rng.randint(1, 12)
            rects.append([x1 + w, y1, x1 + w + 8 * rng.randint(1, 8), y1 + h2])
        mods.append([kind, rects])
    add_fixed(mods, regs, rng)
    case = {"dw": W, "dh": H, "regs": regs, "mods": mods, "zero": rng.randint(0, 1), "embs": list(ORIGIN0)}
    hard = [i for i, m in enumerate(mods) if m[0] == "hard"]
    if hard and rng.random() < 0.5:
        i = rng.choice(hard)
        x0 = min(r[0] for r in mods[i][1]); y0 = min(r[1] for r in mods[i][1])
        case["move"] = [i, 8 * rng.randint(-(x0 // 8), 12), 8 * rng.randint(-(y0 // 8), 12)]
    fixed = [i for i, m in enumerate(mods) if m[0] == "fixed"]
    if fixed and rng.random() < 0.3:
        case["release"] = [rng.choice(fixed)]
    return case


def decide(ctx: Ctx, cases):
    prepare_imports()
    import frame.allocation.allocation  # noqa: F401
    results = run_cases(run_case, cases, nproc=16)
    traces, owners = {}, {}
    setup_fail = 0
    for c, (st, val) in zip(cases, results):
        if st != "ok":
            ctx.violation("no_result", {"case": c}, {"status": st})
            continue
        for en, t in val.items():
            ctx.count()
            if "setup" in t:
                setup_fail += 1     # the die/netlist itself was not accepted: outside C03 (C01/C05 cover it)
                continue
            if "off" in t:
                ctx.violation("off_lattice", {"case": c, "embedding": en}, t, {"embedding": en})
                continue
            why = t.pop("why", None)
            mods = [list(m) for m in c["mods"]]
            for j in c.get("release", []):
                mods[j] = ["hard", mods[j][1]]
            base_en = en.split("+")[0]
            if en.endswith("+moved"):
                i, dx, dy = c["move"]
                mods[i] = [mods[i][0], [[r[0] + dx, r[1] + dy, r[2] + dx, r[3] + dy] for r in mods[i][1]]]
            # after an in-place move the rectangles sit where recenter_rectangles put them: current centroid (an area-weighted
            # mean, a rounded quotient even on integer coordinates) plus the displacement -- not exact under any embedding,
            # so a module that ends up TOUCHING a cell may be listed there with a ratio of 1e-17 (seed-3 false alarm)
            tr = {"zero": c["zero"], "mods": mods, "exact": int(base_en in EXACT and not en.endswith("+moved")), **t}
            key = digest(tr)
            if key not in traces:
                tr["id"] = key
                traces[key] = tr
                owners[key] = {"embs": [], "why": why, "case": c, "moved": False}
            owners[key]["embs"].append(base_en)
            owners[key]["moved"] = en.endswith("+moved")
    ctx.extra["die_or_netlist_rejected"] = setup_fail
    verdicts = tlc.validate_traces(ctx, "InitAllocTrace", "InitAllocTrace", list(traces.values()), chunk=3000)
    for key, v in verdicts.items():
        t = traces[key]
        c = owners[key]["case"]
        nontrivial = t["ok"] == 1 and any(0 < e[1] < (o[2] - o[0]) * (o[3] - o[1]) for o in t["obs"] for e in o[5])
        ctx.count(key, nontrivial=nontrivial, n=0)
        for (l, clause) in v["fails"]:
            movable = [i for i, m in enumerate(c["mods"]) if m[0] != "fixed"]
            feats = {"clause": clause, "zero": c["zero"], "raised": t["ok"] == 0,
                     "why": (owners[key]["why"] or "").split(":")[0],
                     "some_module_touches_no_cell": not all(covers_refinable(c, i) for i in movable)}
            feats["after_move"] = owners[key]["moved"]
            feats["released_fixed"] = bool(c.get("release"))
            feats["tagged_rectangles"] = bool(c.get("tags"))
            feats["life"] = c.get("life") or ""
            ctx.violation(clause, {**{k: c[k] for k in ("dw", "dh", "regs", "mods", "zero")}, "pre": c.get("pre"),
                                   "move": c.get("move"), "release": c.get("release"), "tags": c.get("tags"), "life": c.get("life"),
                                   "embeddings": owners[key]["embs"]},
                          {"observed": {k: t[k] for k in ("ok", "refinable", "fixedcells", "obs")}, "why": owners[key]["why"]}, feats)
    for t in list(traces.values())[:2]:
        ctx.sample({"trace": t, "embeddings": owners[t["id"]]["embs"]})


def run(ctx: Ctx) -> int:
    if ctx.replay:
        rec = json.load(open(ctx.replay))["case"]
        case = {k: rec[k] for k in ("dw", "dh", "regs", "mods", "zero")}
        case["embs"] = rec.get("embeddings", ORIGIN0)
        for k in ("pre", "move", "release", "tags", "life"):
            if rec.get(k):
                case[k] = rec[k]
        decide(ctx, [case])
        return ctx.finish("model_checking", "replay of one recorded case")
    tier = ctx.tier
    tlc.model_check(ctx, "InitAlloc", f"InitAlloc_mc_{tier}", vacuity_ignore=("Emit",))
    gen = tlc.generate(ctx, "InitAlloc", f"InitAlloc_gen_{tier}")
    rng = random.Random(ctx.seed * 1000003 + 3)
    ctx.extra["cases_enumerated_by_tlc"] = len(gen)
    if tier == "quick":
        rng.shuffle(gen)
        gen = gen[:2500]
    elif len(gen) > 120000:
        rng.shuffle(gen)
        gen = gen[:120000]
    cases = [add_tags(to_case(g, rng), rng) for g in gen]
    cases += [add_tags(random_case(rng), rng) for _ in range(500 if tier == "quick" else 6000)]
    before = len(cases)
    cases = [c for c in cases if in_quantifier(c)]
    ctx.extra["outside_quantifier_dropped"] = before - len(cases)
    decide(ctx, cases)
    ctx.extra["embeddings"] = ORIGIN0
    ctx.assumptions += [
        "'touches some cell' is read as: overlaps a refinable cell (fixed cells are owned by the fixed module alone)",
        "module shapes have non-negative centre coordinates (the netlist reader rejects negative numbers)",
        "every fixed rectangle is its own fixed module; dies/netlists rejected at load are outside C03",
        "completely blocked dies (no cell at all) are outside the universe",
    ]
    return ctx.finish(
        "model_checking",
        "TLC enumerates (<=1 die region) x (<=1 quick / <=2 thorough movable modules from all lattice rectangles incl. sticking out, "
        "squares of side 1-2 steps) x include-zero on a 2x2 die; random dies to 12x12 with <=4 modules and two-rectangle shapes; "
        "about a third are refined by split_refinable_regions first; evaluation = one (case, embedding); distinct = distinct "
        "pulled-back observations judged by TLC; non-trivial = some cell is partially covered (0 < ratio < 1)",
        exhaustive=False)
