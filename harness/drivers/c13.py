"""C13 -- Force-directed relocation: fixed modules stay, centres stay in the die, nothing but centres changes,
determinism, best-of selection.

TLC (Force) model-checks the contract of one iteration (a module that is not fixed moves by at most the current
temperature and is clamped to the die, a fixed one does not move, nothing else is written) and the scan of
force_algorithm (first minimal cost), and emits inputs: module kinds x start points (corners, border, interior,
coincident) x iteration counts.  Every input is built as a real Netlist + Die under float embeddings and run through
fruchterman_reingold_layout (twice on equal inputs, and once on the `visualize` path with a stub plot function that
records the centres after every iteration) and force_algorithm (seen through a wrapper of the layout function that
records every spring constant tried, its layout and the library's own cost).  Everything observed is pulled back to
integers / strings and judged by TLC (ForceTrace: JudgeRun, JudgeSel = property clauses; StepOK = conformance of
the observed iterations with the contract).  A seeded random driver adds larger netlists (up to 12 modules,
hyperedges, weights, rectangles, up to 100 iterations).
"""
from __future__ import annotations

import copy
import json
import math
import random
import struct

from ..core import Ctx, MachineryError, digest
from ..forkpool import prepare_imports, run_cases
from ..lattice import EMBEDDINGS, ORIGIN0
from .. import tlc

UNIT = 1e9            # coordinates are sent in units of 1e-9 * max(W, H)
LO, HI = -1_000_000_000, 2_000_000_000
KSCALE = 4            # harness lattice units per model lattice unit (TLC-generated cases)
COSTINF = 1_000_000_000


# ------------------------------------------------------------------------------------------ building the input
def build(case, emb):
    """lattice case -> (netlist dict, die dict) of Python numbers under the embedding"""
    from frame.utils.keywords import (KW_MODULES, KW_NETS, KW_AREA, KW_CENTER, KW_FIXED, KW_HARD, KW_TERMINAL,
                                      KW_RECTANGLES, KW_WIDTH, KW_HEIGHT)
    mods = {}
    for m in case["mods"]:
        k = m["kind"]
        d = {}
        if k == "soft":
            d[KW_AREA] = emb.area(m["area"])
            d[KW_CENTER] = [emb.coord(m["p"][0]), emb.coord(m["p"][1])]
        elif k in ("term", "fterm"):
            d[KW_TERMINAL] = True
            d[KW_CENTER] = [emb.coord(m["p"][0]), emb.coord(m["p"][1])]
            if k == "fterm":
                d[KW_FIXED] = True
        else:  # "hard" / "fixed": the centre is the centroid of the rectangles
            d[KW_FIXED if k == "fixed" else KW_HARD] = True
            d[KW_RECTANGLES] = [emb.rect(r) for r in m["rects"]]
        mods[m["name"]] = d
    nets = [list(e[:-1]) + [e[-1][0] if e[-1][1] == 1 else e[-1][0] / e[-1][1]] for e in case["nets"]]
    nl = {KW_MODULES: mods}
    if nets:
        nl[KW_NETS] = nets
    return nl, {KW_WIDTH: emb.length(case["W"]), KW_HEIGHT: emb.length(case["H"])}


def _bits(p) -> str:
    try:
        return struct.pack(">dd", float(p.x), float(p.y)).hex()
    except Exception:
        return "none"


def _sig(die):
    nl = die.netlist
    mods, areas, rects = [["__die__", f"{die.width!r}x{die.height!r}"]], [], []
    for m in nl.modules:
        mods.append([m.name, f"fixed={int(m.is_fixed)} hard={int(m.is_hard)} terminal={int(m.is_terminal)} "
                             f"flip={int(m.flip)} ar={m.aspect_ratio!r}"])
        areas.append([repr(m.area()), repr(sorted(m.area_regions.items()))])
        rects.append([[repr(r.center.x), repr(r.center.y), repr(r.shape.w), repr(r.shape.h), str(r.region),
                       f"fixed={int(r.fixed)} hard={int(r.hard)} loc={r.location}"] for r in m.rectangles])
    nets = [[b.name for b in e.modules] + [repr(e.weight)] for e in nl.edges]
    return {"mods": mods, "areas": areas, "rects": rects, "nets": nets}


def _units(v, S):
    """coordinate -> (ok, integer in units of 1e-9 * S)"""
    if isinstance(v, bool) or not isinstance(v, (int, float)) or not math.isfinite(v):
        return 0, 0
    return 1, max(LO, min(HI, round(v / S * UNIT)))


def _centres(die, S):
    ok, pts, bits = [], [], []
    for m in die.netlist.modules:
        c = m.center
        if c is None:
            ok.append(0); pts.append([0, 0]); bits.append("none"); continue
        ox, x = _units(c.x, S)
        oy, y = _units(c.y, S)
        ok.append(int(ox and oy)); pts.append([x, y]); bits.append(_bits(c))
    return ok, pts, bits


def observe(case, en):
    """-> list of trace dicts (without id) for one case under one embedding, or {"rejected": why}"""
    from frame.geometry.geometry import Rectangle
    from frame.netlist.netlist import Netlist
    from frame.die.die import Die
    import tools.force.fruchterman_reingold as fr

    emb = EMBEDDINGS[en]
    Rectangle.undefine_epsilon()
    try:
        nld, died = build(case, emb)
        netlist = Netlist(nld)
        die = Die(died, netlist)
        # public calls a flow may make between loading and relocating (they must not change what relocation does):
        # squares for the modules without rectangles (as the allocation stage does), a look at the wire length
        flavour = case.get("flavour", 0)
        if flavour & 1 and all(m.num_rectangles > 0 or m.area() > 0 for m in netlist.modules):
            netlist.create_squares()
        if flavour & 2:
            _ = netlist.wire_length
    except Exception as e:   # the generator must only produce inputs FRAME accepts; counted, never an accusation
        return {"rejected": f"{type(e).__name__}: {e}"}
    S = float(max(die.width, die.height))
    n, kappa = case["n"], case["kappa1000"] / 1000
    _, W9 = _units(die.width, S)
    _, H9 = _units(die.height, S)
    base = {"n": n, "W": W9, "H": H9, "fx": [int(m.is_fixed) for m in netlist.modules]}
    sig0 = _sig(die)
    _, p0, _ = _centres(die, S)
    empty = {"ok": [0] * len(p0), "fin": p0, "sig1": sig0, "bitsA": [], "bitsB": [], "bitsV": [], "snaps": []}
    traces = []

    orig_layout = fr.fruchterman_reingold_layout
    orig_plot = getattr(fr, "get_floorplan_plot", None)

    def layout(d, visualize=None):
        return orig_layout(d, kappa, False, visualize, n)

    # ---- one layout call: twice on equal inputs, once on the visualize path ------------------------------
    if case["call"] in ("layout", "both"):
        t = dict(base, kind="run", call="layout", p0=p0, sig0=sig0)
        try:
            rA, _ = layout(copy.deepcopy(die))
            ok, fin, bitsA = _centres(rA, S)
            t.update(ret=1, ok=ok, fin=fin, sig1=_sig(rA), bitsA=bitsA)
        except Exception as e:
            t.update(empty, ret=0, exception=f"{type(e).__name__}: {e}")
        if t["ret"]:
            try:
                rB, _ = layout(copy.deepcopy(die))
                t["bitsB"] = _centres(rB, S)[2]
            except Exception as e:
                t["bitsB"] = [f"raised {type(e).__name__}"]
            snaps = []
            if orig_plot is not None:
                def stub(nl, shape, *a, **k):
                    snaps.append([[_units(m.center.x, S)[1], _units(m.center.y, S)[1]] for m in nl.modules])
                    return None
                fr.get_floorplan_plot = stub
                try:
                    rV, _ = layout(copy.deepcopy(die), visualize="verif")
                    t["bitsV"] = _centres(rV, S)[2]
                except Exception as e:
                    snaps = []
                    t["bitsV"] = [f"raised {type(e).__name__}"]
                finally:
                    fr.get_floorplan_plot = orig_plot
            else:
                t["bitsV"] = t["bitsA"]
            t["snaps"] = snaps
        traces.append(t)

    # ---- force_algorithm, seen through a wrapper of the layout function ----------------------------------
    if case["call"] in ("force", "both"):
        libcost: list = []
        iters: list = []

        def run_force(visualize=None):
            calls = []
            libcost.clear()
            iters.clear()

            def wrap(d, kp=1.0, verbose=False, visualize=None, max_iter=100):
                res = orig_layout(d, kp, verbose, visualize, max_iter)
                rd = res[0]
                try:
                    # the cost as the statement defines it, the wire length recomputed from the centres of this layout
                    # (per net: weight times the sum of the distances from the member centres to their mean)
                    wl = 0.0
                    for e in rd.netlist.edges:
                        k = len(e.modules)
                        mx = sum(m.center.x for m in e.modules) / k
                        my = sum(m.center.y for m in e.modules) / k
                        wl += e.weight * sum(math.hypot(m.center.x - mx, m.center.y - my) for m in e.modules)
                    cost = fr.total_intersection_area(rd) + wl / 2
                except Exception:
                    cost = math.nan
                try:   # the library's own number, bit for bit what force_algorithm compares (conformance ranks only)
                    lib = fr.total_intersection_area(rd) + rd.netlist.wire_length / 2
                except Exception:
                    lib = math.nan
                libcost.append(lib)
                iters.append(int(max_iter))      # the iteration count this layout call was given
                calls.append((kp, cost, "|".join(_centres(rd, S)[2])))
                return res
            fr.fruchterman_reingold_layout = wrap
            try:
                if visualize is not None and orig_plot is not None:
                    fr.get_floorplan_plot = lambda *a, **k: None          # the frames themselves are not the subject
                rd, _ = fr.force_algorithm(copy.deepcopy(die), False, visualize, n)
            finally:
                fr.fruchterman_reingold_layout = orig_layout
                if orig_plot is not None:
                    fr.get_floorplan_plot = orig_plot
            return rd, calls
        t = dict(base, kind="run", call="force_algorithm", p0=p0, sig0=sig0)
        calls = []
        try:
            rF, calls = run_force()
            first_lib = list(libcost)
            first_iters = list(iters)
            ok, fin, bitsA = _centres(rF, S)
            t.update(ret=1, ok=ok, fin=fin, sig1=_sig(rF), bitsA=bitsA, bitsV=bitsA, snaps=[])
            try:
                t["bitsB"] = _centres(run_force()[0], S)[2]
            except Exception as e:
                t["bitsB"] = [f"raised {type(e).__name__}"]
        except Exception as e:
            t.update(empty, ret=0, exception=f"{type(e).__name__}: {e}")
        traces.append(t)

        def sel_trace(calls, libs, its, lay_bits, callname):
            if len(calls) < 1:
                return {"kind": "sel", "call": callname, "n": n, "tried": [], "final_kappa": 0, "lay": "|".join(lay_bits), "hook_lost": 1}
            # the tries: every layout call, except a last call that repeats an earlier spring constant (the code on the
            # pinned tree recomputes the winner on the caller's die; an implementation that keeps the winning layout
            # instead makes no such call -- benign change B09/3 -- and then every call is a try)
            ks = [k for (k, _c, _l) in calls]
            tried = calls[:-1] if ks[-1] in ks[:-1] else calls
            fin_c = [c for (_k, c, _l) in tried if isinstance(c, float) and math.isfinite(c)]
            mx = max([abs(c) for c in fin_c] + [0.0])
            sc = 1e8 / mx if mx > 0 else 1.0
            # exact order of the library's own costs (dense rank, 1 = smallest): what the scan compares
            lc = libs[:len(tried)]
            order = sorted(set(x for x in lc if isinstance(x, float) and math.isfinite(x)))
            rank_of = {x: i + 1 for i, x in enumerate(order)}
            ranks = [rank_of.get(x, COSTINF) for x in lc] + [COSTINF] * (len(tried) - len(lc))
            return {"kind": "sel", "call": callname, "n": n,
                    # <<kappa, cost, layout, rank, iterations the try was run with>>
                    "tried": [([round(k * 1000), round(c * sc), l, ranks[i]] if (isinstance(c, float) and math.isfinite(c))
                               else [round(k * 1000), COSTINF, l, COSTINF]) + [its[i] if i < len(its) else -1]
                              for i, (k, c, l) in enumerate(tried)],
                    "final_kappa": round(calls[-1][0] * 1000), "lay": "|".join(lay_bits)}

        if t["ret"]:
            traces.append(sel_trace(calls, first_lib, first_iters, t["bitsA"], "force_algorithm"))
            # force_algorithm(visualize=...): the frames are an output option, the layout returned must be the same, and it
            # must again be the cheapest of the layouts tried
            if case.get("visforce", True):
                try:
                    rV, callsV = run_force("verif")
                    t["bitsV"] = _centres(rV, S)[2]
                    traces.append(sel_trace(callsV, list(libcost), list(iters), t["bitsV"], "force_algorithm_visualize"))
                except Exception as e:
                    t["bitsV"] = [f"raised {type(e).__name__}"]
            else:
                t["bitsV"] = []
    return traces


def run_case(case):
    return {en: observe(case, en) for en in case["embs"]}


def observe_bits(case, en):
    """The same calls once more, in ANOTHER process (a freshly forked child with no history): only the bit patterns
    of the returned centres, per call -> {"layout": [...], "force_algorithm": [...]}"""
    from frame.geometry.geometry import Rectangle
    from frame.netlist.netlist import Netlist
    from frame.die.die import Die
    import tools.force.fruchterman_reingold as fr
    emb = EMBEDDINGS[en]
    Rectangle.undefine_epsilon()
    try:
        nld, died = build(case, emb)
        die = Die(died, Netlist(nld))
    except Exception as e:
        return {"layout": [f"rejected {type(e).__name__}"], "force_algorithm": [f"rejected {type(e).__name__}"]}
    S = float(max(die.width, die.height))
    out = {}
    if case["call"] in ("layout", "both"):
        try:
            r, _ = fr.fruchterman_reingold_layout(copy.deepcopy(die), case["kappa1000"] / 1000, False, None, case["n"])
            out["layout"] = _centres(r, S)[2]
        except Exception as e:
            out["layout"] = [f"raised {type(e).__name__}"]
    if case["call"] in ("force", "both"):
        try:
            r, _ = fr.force_algorithm(copy.deepcopy(die), False, None, case["n"])
            out["force_algorithm"] = _centres(r, S)[2]
        except Exception as e:
            out["force_algorithm"] = [f"raised {type(e).__name__}"]
    return out


def run_case_bits(case):
    return {en: observe_bits(case, en) for en in case["embs"]}


# ------------------------------------------------------------------------------------------ cases
def _rect_around(p, hw, hh):
    return [p[0] - hw, p[1] - hh, p[0] + hw, p[1] + hh]


def from_tlc(g, rng: random.Random, idx: int) -> dict:
    """A Setup state of the Force spec -> lattice case (model unit = KSCALE harness units)."""
    K = KSCALE
    mods = []
    for j, (k, p) in enumerate(zip(g["kind"], g["pos0"])):
        q = [p[0] * K, p[1] * K]
        m = {"name": f"M{j}", "kind": k, "p": q}
        if k == "soft":
            m["area"] = rng.choice([1, 4, 9, 16, 30, 64])
        elif k == "fixed":
            m["rects"] = [_rect_around(q, K, K)]                  # half-size 1 model unit: inside the die, disjoint
        elif k == "hard":
            m["rects"] = [_rect_around(q, rng.choice([1, 2]) * 2, rng.choice([1, 2]) * 2)]
        mods.append(m)
    names = [m["name"] for m in mods]
    nets = []
    style = idx % 4
    if style == 0 and len(names) >= 2:
        nets = [names[:2] + [[1, 1]]]
    elif style == 1:
        nets = [names + [[5, 2]]]                                   # one hyperedge over all modules, weight 2.5
    elif style == 2 and len(names) >= 2:
        nets = [[a, b, [rng.choice([1, 2, 3]), rng.choice([1, 2])]] for a, b in zip(names, names[1:])]
    return {"W": g["W"] * K, "H": g["H"] * K, "mods": mods, "nets": nets, "n": g["n"],
            "kappa1000": [400, 1000, 1500, 100, 3000][idx % 5], "call": "both" if idx % 3 == 0 else "layout", "origin": "tlc", "visforce": idx % 6 == 0,
            "flavour": (idx // 3) % 4}


def random_cases(rng: random.Random, count: int, long: bool = False) -> list[dict]:
    """long: force_algorithm with iteration counts ABOVE its default of 100 (101, 150, 250) on small designs (2-4 modules)"""
    cases = []
    for i in range(count):
        W, H = 2 * rng.randint(8, 32), 2 * rng.randint(8, 32)
        nm = rng.randint(2, 4) if long else rng.randint(2, 12)
        special = [(0, 0), (W, 0), (0, H), (W, H), (W // 2, 0), (0, H // 2), (W, H // 2), (W // 2, H), (W // 2, H // 2)]
        mods, fixed_rects, used = [], [], []
        for j in range(nm):
            k = rng.choice(["soft", "soft", "soft", "hard", "term", "fixed", "fterm"])
            mode = rng.randrange(4)
            if mode == 0:
                p = list(rng.choice(special))
            elif mode == 1 and used:
                p = list(rng.choice(used))                          # coincident with an earlier centre
            else:
                p = [rng.randint(0, W), rng.randint(0, H)]
            m = {"name": f"M{j}", "kind": k}
            if k in ("fixed", "hard"):
                hw, hh = rng.randint(1, 3), rng.randint(1, 3)
                for _try in range(20):
                    p = [rng.randint(hw, W - hw), rng.randint(hh, H - hh)]
                    r = _rect_around(p, hw, hh)
                    if k == "hard" or all(r[2] <= f[0] or f[2] <= r[0] or r[3] <= f[1] or f[3] <= r[1] for f in fixed_rects):
                        break
                else:
                    k = m["kind"] = "fterm"
                if k == "fixed":
                    fixed_rects.append(r)
                if k in ("fixed", "hard"):
                    m["rects"] = [r]
                    if k == "hard" and rng.random() < 0.4 and r[3] + 2 <= H:   # a second rectangle on top (an L / T shape)
                        m["rects"].append([r[0], r[3], r[0] + 2 * max(1, hw // 2) , r[3] + 2])
                        # the centre becomes the area-weighted centroid: computed by FRAME, read back as p0
            if k == "soft":
                m["area"] = rng.choice([1, 2, 5, 9, 16, 40, 100, 250])
            m["p"] = p
            used.append(tuple(p))
            mods.append(m)
        if all(m["kind"] in ("term", "fterm") for m in mods):          # something must have an area
            mods[0] = {"name": "M0", "kind": "soft", "p": mods[0]["p"], "area": 9}
        names = [m["name"] for m in mods]
        nets = []
        for _e in range(rng.randint(0, 2 * nm)):
            ar = min(nm, rng.choice([2, 2, 2, 3, 4, 5, nm]))
            nets.append(rng.sample(names, ar) + [rng.choice([[1, 1], [2, 1], [3, 1], [1, 2], [5, 2], [7, 10]])])
        call = rng.choice(["layout", "layout", "both", "force"])
        n = rng.choice([0, 1, 2, 5, 20, 100]) if call == "layout" else rng.choice([0, 1, 2, 5, 20])
        if long:
            call, n = "force", rng.choice([100, 101, 150, 250])
        cases.append({"W": W, "H": H, "mods": mods, "nets": nets, "n": n,
                      "kappa1000": rng.choice([100, 400, 700, 1000, 1500, 3000]), "call": call, "origin": "random",
                      "flavour": rng.randrange(4), "visforce": nm <= 6})
    return cases


# ------------------------------------------------------------------------------------------ judging
def decide(ctx: Ctx, cases: list[dict], stride: int = 1):
    prepare_imports()
    import frame.die.die  # noqa: F401  (imported in the parent, used only in children)
    import frame.netlist.netlist  # noqa: F401
    import tools.force.fruchterman_reingold  # noqa: F401
    for i, c in enumerate(cases):
        c.setdefault("embs", [ORIGIN0[i % len(ORIGIN0)], ORIGIN0[(i + 3) % len(ORIGIN0)]])
    results = run_cases(run_case, cases, nproc=16, case_timeout=300)
    # cross-process determinism: the same cases once more, each in its own freshly forked child (the first pass ran them
    # in worker processes that had already executed other cases); `stride` bounds the cost in the thorough tier
    second = {}
    xsel = [i for i in range(len(cases)) if i % stride == 0]
    for i, (st2, val2) in zip(xsel, run_cases(run_case_bits, [cases[i] for i in xsel], nproc=16, fresh=True, case_timeout=300)):
        second[i] = val2 if st2 == "ok" else {en: {"layout": ["worker_" + st2], "force_algorithm": ["worker_" + st2]} for en in cases[i]["embs"]}
    traces, meta = {}, {}
    rejected = 0
    for ci, (c, (st, val)) in enumerate(zip(cases, results)):
        if st != "ok":
            ctx.violation("returns", {"case": c}, {"status": st}, {"clause": "returns", "call": c["call"], "exception": "worker_" + st})
            continue
        for en, obs in val.items():
            if isinstance(obs, dict):
                rejected += 1
                ctx.extra.setdefault("rejected_examples", [])
                if len(ctx.extra["rejected_examples"]) < 3:
                    ctx.extra["rejected_examples"].append({"why": obs["rejected"], "embedding": en, "case": c})
                continue
            for t in obs:
                if t["kind"] == "run":      # [] = not repeated in another process
                    t["bitsX"] = second[ci][en].get(t["call"], []) if (ci in second and t.get("ret") == 1) else []
                key = digest([t, c["W"], c["H"], en])
                t["id"] = key
                traces[key] = t
                meta[key] = {"case": dict(c, embs=[en]), "embedding": en}
                if t["kind"] == "run":
                    runs = 3 if t["call"] == "layout" else 26
                    ctx.count(n=runs)
    ctx.extra["inputs_rejected_by_frame"] = ctx.extra.get("inputs_rejected_by_frame", 0) + rejected
    if cases and rejected > 0.2 * sum(len(c["embs"]) for c in cases):
        raise MachineryError(f"{rejected} generated inputs were rejected by Netlist/Die: the generator is outside FRAME's domain "
                             f"({ctx.extra.get('rejected_examples', [{}])[0].get('why')})")
    verdicts = tlc.validate_traces(ctx, "ForceTrace", "ForceTrace", list(traces.values()), chunk=3000)
    lost = 0
    for key, v in verdicts.items():
        t, m = traces[key], meta[key]
        c = m["case"]
        moved = t["kind"] == "run" and t.get("ret") == 1 and t["fin"] != t["p0"]
        ctx.count(key, nontrivial=bool(moved or t["kind"] == "sel"), n=0)
        if t["kind"] == "run" and t["call"] == "layout" and t.get("ret") == 1 and t["n"] > 0 and not t["snaps"]:
            lost += 1
        for (_l, clause) in v["fails"]:
            if clause == "visualize_returns_the_same_layout":
                # `visualize` is a parameter: the statement's "deterministic" does not say that a call WITH it returns what a
                # call WITHOUT it returns (only the documentation suggests so).  Reported as drift; a visualize path that
                # returns a wrong layout is still caught where the statement speaks: best_of on force_algorithm(visualize=..),
                # in_die, fixed_unmoved, deterministic on the visualize runs themselves.
                ctx.model_drift("visualize_changes_the_returned_layout")
                continue
            detail = {"call": t["call"], "n": t["n"]}
            if t["kind"] == "run":
                detail.update({k: t[k] for k in ("fx", "p0", "fin", "ok", "W", "H") if k in t})
                if clause.startswith("same_"):
                    part = {"same_modules": "mods", "same_areas": "areas", "same_rectangles": "rects", "same_nets": "nets"}[clause]
                    detail.update(before=t["sig0"][part], after=t["sig1"][part])
                if clause == "deterministic":
                    detail.update(bitsA=t["bitsA"], bitsB=t["bitsB"])
                if clause == "deterministic_across_processes":
                    detail.update(bitsA=t["bitsA"], bitsX=t["bitsX"])
                if clause == "visualize_returns_the_same_layout":
                    detail.update(bitsA=t["bitsA"], bitsV=t["bitsV"])
                if "exception" in t:
                    detail["exception"] = t["exception"]
            else:
                detail.update(tried=[x[:2] for x in t["tried"]], final_kappa=t["final_kappa"],
                              returned_layout_matches=[i for i, x in enumerate(t["tried"]) if x[2] == t["lay"]])
            ctx.violation(clause, {"case": dict(c, call=("layout" if t["call"] == "layout" else "force")), "embedding": m["embedding"]},
                          detail,
                          {"clause": clause, "call": t["call"], "embedding": m["embedding"],
                           "exception": t.get("exception", "").split(":")[0]})
        for (_l, what) in v["drift"]:
            ctx.model_drift(f"{t['call']}: {what}")
    if lost:
        ctx.extra["per_iteration_observation_lost"] = lost
        ctx.model_drift("get_floorplan_plot hook not reached: only final states observed", lost)
    for t in list(traces.values())[:4]:
        s = {k: v for k, v in t.items() if k not in ("sig0", "sig1", "snaps", "tried")}
        s["snapshots"] = len(t.get("snaps", []))
        ctx.sample({"trace": s, "embedding": meta[t["id"]]["embedding"]})


def run(ctx: Ctx) -> int:
    if ctx.replay:
        rec = json.load(open(ctx.replay))
        c = rec["case"]["case"]
        c["embs"] = [rec["case"]["embedding"]]
        decide(ctx, [c])
        return ctx.finish("model_checking", "replay of one recorded case")
    tier = ctx.tier
    tlc.model_check(ctx, "Force", f"Force_mc_{tier}", vacuity_ignore=("EmitRun",))
    gen = tlc.generate(ctx, "Force", f"Force_gen_{tier}")
    if not gen:
        raise MachineryError("TLC generated no cases")
    gen.sort(key=lambda g: json.dumps(g, sort_keys=True))
    rng = random.Random(ctx.seed * 1000003 + 13)
    cases = [from_tlc(g, rng, i) for i, g in enumerate(gen)]
    n_tlc = len(cases)
    cases += random_cases(rng, 120 if tier == "quick" else 1500)
    # force_algorithm asked for MORE iterations than its default (101, 150, 250): every try must run with what the caller
    # asked for.  Own generator state, so that the cases above do not depend on this block.
    rng2 = random.Random(ctx.seed * 1000003 + 1313)
    glong = tlc.generate(ctx, "Force", "Force_gen_long")
    glong.sort(key=lambda g: json.dumps(g, sort_keys=True))
    step = 48 if tier == "quick" else 3
    first_long = len(cases)
    for i, g in enumerate(glong[::step]):
        cases.append(dict(from_tlc(g, rng2, i), call="force"))
    cases += random_cases(rng2, 4 if tier == "quick" else 60, long=True)
    for i, c in enumerate(cases[first_long:]):      # one embedding each (26 + 13 layouts of up to 250 iterations per embedding)
        c["embs"] = [ORIGIN0[i % len(ORIGIN0)]]
        c["visforce"] = i % 3 == 0                   # the visualize variant of force_algorithm for a third of them
    ctx.extra["force_algorithm_cases_above_100_iterations"] = len(cases) - first_long
    decide(ctx, cases, stride=1 if tier == "quick" else 3)
    ctx.extra["embeddings"] = ORIGIN0
    ctx.extra["cases_from_tlc"] = n_tlc
    ctx.extra["cases_random"] = len(cases) - n_tlc
    ctx.assumptions += [
        "inputs: every module has a centre inside the closed die (terminals / soft modules also on the border and in corners, "
        "any number coincident); fixed modules with rectangles lie inside the die and do not overlap (Die rejects anything else)",
        "float dimension sampled: every case under 2 of the 7 origin-0 embeddings (rotating), not enumerated",
        "'not moved' and 'inside the die' judged to 1e-9 of the larger die side; determinism judged on the bit patterns of the "
        "returned centres of two executions on equal (deep-copied) inputs in one process (and of the `visualize` variant of the call), and of a third execution in a separate, "
        "freshly forked child process (every case in the quick tier, every third case in the thorough tier)",
        "best-of: costs recomputed with the library's own total_intersection_area and wire_length on the layouts that "
        "force_algorithm itself produced (wrapper on the module-level name), compared after scaling to 1e-8 of the largest cost",
        "the optimiser itself is not predicted: the spec is a contract (what an iteration may do), not the force computation",
    ]
    return ctx.finish(
        "model_checking",
        "one evaluation = one execution of fruchterman_reingold_layout (3 per layout observation: two plain, one on the "
        "visualize path; 26 per force_algorithm observation); distinct = distinct observed traces judged by TLC; "
        "non-trivial = the returned layout differs from the input (some module moved) or a selection among spring constants",
        exhaustive=False)
