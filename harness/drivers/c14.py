"""C14 -- Spectral placement keeps every module's disc inside the die.

TLC (Spectral / SpectralMC) model-checks the step contracts of the spectral machine (Seed, Normalize, Step,
EndDim, EndTrial, Commit) on a small quantised universe and prints the netlists of a generation universe.
Each netlist (plus larger seeded random ones) is run through the real `Spectral(...).spectral_layout(shape, n,
False)` in forked workers; harness-side wrappers on the module-level names
`tools.spectral.spectral.spectral_layout_die` and `tools.spectral.spectral_algorithm.normalize` log every trial
and a sample of the normalize calls (the first ones, powers of two, the last ones and the call with the largest
excess over the span).  Every number is quantised to integer micro-units (1e-6 of the larger die side) and the
run is judged event by event by TLC (SpectralTrace: property clauses -> VIOLATION, "d_" items -> MODEL-DRIFT).
An exception for an in-quantifier netlist is clause `returns` (reported from Python, counted separately).
"""
from __future__ import annotations

import json
import math
import random
import time
from fractions import Fraction as F

from ..core import Ctx, MachineryError, canon, digest
from ..forkpool import prepare_imports, run_cases
from ..lattice import EMBEDDINGS, Emb
from .. import tlc

MICRO = 1_000_000          # micro-units of the larger die side
MARGIN = 100               # a disc "fits" when it leaves at least 1e-4 of the die side (quantifier, strict side)
# scale of one micro-unit: die side 1.0 (the tool's default die), 1e6 as YAML integers, 1e5, 333333.3, 1e3, 1e9
EMBS = {"unit": Emb("unit", F(1, MICRO)), "ten": Emb("ten", F(10, MICRO)), "e4": Emb("e4", F(1, 10 ** 4 * MICRO)),
        "e6": Emb("e6", F(1, 10 ** 6 * MICRO)), "int": EMBEDDINGS["int"], "dec": EMBEDDINGS["dec"],
        "third": EMBEDDINGS["third"], "tiny": EMBEDDINGS["tiny"], "big": EMBEDDINGS["big"]}
EMB_ORDER = ["unit", "int", "dec", "third", "tiny", "big", "e4", "e6"]      # die side 1, 1e6, 1e5, 3.3e5, 1e3, 1e9, 1e-4, 1e-6
WEIGHTS = [1, 1, 2, 0.5, 2.5, 1 / 3, 10]


# ------------------------------------------------------------------------------------------------ cases
def case_from_tlc(net: dict, emb: str, seed: int) -> dict | None:
    """TLC netlist (lattice units) -> runnable case in micro-units; None when outside the quantifier
    (the real disc of a movable module does not fit in the die)."""
    hx, hy = net["half"]
    k = MICRO // (2 * max(hx, hy))
    mods = []
    for kind, area, rects in zip(net["kind"], net["area"], net["rects"]):
        if kind != "fixed":
            r = math.sqrt(area / math.pi) * k
            if r > min(hx, hy) * k - MARGIN:
                return None
        if kind == "soft":
            mods.append({"kind": "soft", "area": area * k * k})
            if rects:                         # a soft module with a rectangle covering a part of its area (template)
                mods[-1]["rects"] = [[c * k for c in r] for r in rects]
            elif len(mods) % 4 == 1:          # ... and every fourth other one: a square of a quarter of its area at the origin
                side = max(2, int(math.sqrt(area) * k / 4) * 2)
                mods[-1]["rects"] = [[0, 0, side, side]]
        elif not rects:                       # template 4: a fixed terminal (a pin: no area, no rectangle, only a centre)
            mods.append({"kind": "fixed", "terminal": 1, "center": [c * k for c in net["p0"][len(mods)]]})
        else:
            mods.append({"kind": kind, "rects": [[c * k for c in r] for r in rects]})
    # every third soft module has its area split over two regions (the total is what spectral uses)
    for i, m in enumerate(mods):
        if m["kind"] == "soft" and i % 3 == 2:
            m["split"] = [3, 5]
    return {"src": "tlc", "emb": emb, "seed": seed, "trials": net["trials"], "die": [2 * hx * k, 2 * hy * k],
            "mods": mods, "nets": [[w, list(pins)] for w, pins in net["edges"]]}


def _hard_shape(rng: random.Random, area: float, x0: int, y0: int) -> list[list[int]]:
    """1..3 touching, non-overlapping rectangles (trunk + branch on top + branch to the right), even coordinates."""
    nb = rng.choice([0, 0, 1, 1, 2])
    asp = rng.choice([1.0, 0.5, 2.0, 0.3, 3.0])
    ta = area / (1 + 0.35 * nb)
    w = max(2, 2 * round(math.sqrt(ta * asp) / 2))
    h = max(2, 2 * round(math.sqrt(ta / asp) / 2))
    rs = [[x0, y0, x0 + w, y0 + h]]
    if nb >= 1:
        bw = max(2, 2 * round(w * rng.uniform(0.3, 1.0) / 2))
        bh = max(2, 2 * round(0.35 * ta / bw / 2))
        rs.append([x0, y0 + h, x0 + bw, y0 + h + bh])
    if nb >= 2:
        bh = max(2, 2 * round(h * rng.uniform(0.3, 1.0) / 2))
        bw = max(2, 2 * round(0.35 * ta / bh / 2))
        rs.append([x0 + w, y0, x0 + w + bw, y0 + bh])
    return rs


def _rects_area(rs):
    return sum((r[2] - r[0]) * (r[3] - r[1]) for r in rs)


def random_case(rng: random.Random, emb: str) -> dict:
    """Larger netlists than TLC enumerates: 4..14 movable + 0..3 fixed modules, random connected weighted
    hyper-graph, any die shape, soft / hard (1..3 rectangles) / fixed mix, discs that fit (sometimes barely)."""
    other = 2 * rng.randint(MICRO // 10, MICRO // 2)
    wq, hq = rng.choice([(MICRO, MICRO), (MICRO, other), (other, MICRO)])
    minhalf = min(wq, hq) // 2
    nmov = rng.randint(4, 14)
    nfix = rng.choice([0, 0, 1, 1, 2, 3])
    kinds = [("hard" if rng.random() < 0.3 else "soft") for _ in range(nmov)] + ["fixed"] * nfix
    rng.shuffle(kinds)
    util = rng.uniform(0.05, 0.8) * wq * hq
    shares = [rng.uniform(0.2, 1.0) for _ in kinds]
    tot = sum(shares)
    rmax = minhalf - 10 * MARGIN            # ordinary modules; the occasional `big` one goes up to the margin
    big = rng.randrange(len(kinds)) if rng.random() < 0.15 else -1     # one module that nearly fills the die
    mods = []
    for i, kind in enumerate(kinds):
        area = min(util * shares[i] / tot, math.pi * (0.9 * rmax) ** 2)
        if i == big and kind != "fixed":
            area = math.pi * (minhalf * (1 - rng.choice([2e-3, 1e-2, 0.05]))) ** 2
        if kind == "soft":
            m = {"kind": "soft", "area": area}
            if rng.random() < 0.25:
                m["split"] = [rng.randint(1, 9), 10]
            if rng.random() < 0.2:
                m["center"] = [rng.randint(0, wq), rng.randint(0, hq)]
            elif rng.random() < 0.3:   # a soft module that already carries a rectangle (from a previous stage); FPEF does
                # not ask the rectangles to add up to the area: they cover 5..60 % of it (the disc is that of the AREA)
                s = max(2, 2 * round(math.sqrt(area * rng.uniform(0.05, 0.6)) / 2))
                x0, y0 = 2 * rng.randint(0, (wq - 2) // 4), 2 * rng.randint(0, (hq - 2) // 4)
                m["rects"] = [[x0, y0, x0 + s, y0 + s]]
        else:
            x0, y0 = (0, 0) if i == big else (2 * rng.randint(0, wq // 4), 2 * rng.randint(0, hq // 4))
            if i == big:
                side = 2 * int(math.sqrt(area) / 2)
                rs = [[0, 0, side, side]]
            else:
                rs = _hard_shape(rng, area, x0, y0)
            while kind == "hard" and math.sqrt(_rects_area(rs) / math.pi) > minhalf - MARGIN:   # stay inside the quantifier
                r = rs[0]
                rs = [[x0, y0, x0 + max(2, (r[2] - r[0]) // 4 * 2), y0 + max(2, (r[3] - r[1]) // 4 * 2)]]
            m = {"kind": kind, "rects": rs}
            if kind == "fixed" and rng.random() < 0.35:      # a fixed terminal (pad) instead of a fixed block
                m = {"kind": "fixed", "terminal": 1, "center": [rng.randint(0, wq), rng.randint(0, hq)]}
        mods.append(m)
    n = len(mods)
    nets = []
    order = list(range(1, n + 1))
    rng.shuffle(order)
    for j in range(1, n):                                    # random spanning tree: connected, every module on a net
        nets.append([rng.choice(WEIGHTS), [order[rng.randrange(j)], order[j]]])
    for _ in range(rng.randint(0, n)):
        pins = rng.sample(range(1, n + 1), rng.randint(2, min(5, n)))
        nets.append([rng.choice(WEIGHTS), pins])
    if "fixed" in kinds and rng.random() < 0.15:
        # every movable module netted to one fixed module (pads around a fixed block), few or no other nets
        hub = kinds.index("fixed") + 1
        nets = [[rng.choice(WEIGHTS), [hub, i]] for i in range(1, n + 1) if i != hub] + nets[n - 1:][:rng.choice([0, 0, 1, 2])]
    rng.shuffle(nets)
    return {"src": "rnd", "emb": emb, "seed": rng.randrange(1 << 30), "trials": rng.choice([1, 1, 2, 3, 5]),
            "die": [wq, hq], "mods": mods, "nets": nets}


def exact_fit_case(rng: random.Random, emb: str) -> dict:
    """A movable module whose disc fits EXACTLY in the die: radius == half the smaller side (in height only, in width
    only, or in both for a square die).  It has no room to move in that dimension, so every module ends on the centre
    line there; nobody may be pushed off it."""
    other = 2 * rng.randint(MICRO // 4, MICRO // 2 - 1)
    wq, hq = rng.choice([(MICRO, other), (other, MICRO), (MICRO, MICRO)])
    side = min(wq, hq)
    mods = [{"kind": "soft", "area": math.pi * (side / 2) ** 2, "fit": side}]
    n = rng.randint(4, 8)
    for _ in range(n):
        r = rng.uniform(0.03, 0.3) * side / 2
        mods.append({"kind": "soft", "area": math.pi * r * r})
    for _ in range(rng.choice([0, 0, 1, 2])):
        x, y = rng.randint(0, wq), rng.randint(0, hq)
        mods.append({"kind": "fixed", "terminal": 1, "center": [x, y]} if rng.random() < 0.5 else
                    {"kind": "fixed", "rects": [[x // 2 * 2, y // 2 * 2, x // 2 * 2 + 2 * (MICRO // 100), y // 2 * 2 + 2 * (MICRO // 100)]]})
    rng.shuffle(mods)
    m = len(mods)
    order = list(range(1, m + 1))
    rng.shuffle(order)
    nets = [[rng.choice(WEIGHTS), [order[rng.randrange(j)], order[j]]] for j in range(1, m)]
    nets += [[1, rng.sample(range(1, m + 1), 3)] for _ in range(rng.randint(0, 3))]
    return {"src": "rnd", "motif": "exact_fit", "emb": emb, "seed": rng.randrange(1 << 30), "trials": rng.choice([1, 1, 2, 3]),
            "die": [wq, hq], "mods": mods, "nets": nets}


def collinear_case(rng: random.Random, emb: str) -> dict:
    """Movable blocks wired ONLY to fixed pins (terminals and small fixed blocks) that all lie on one slanted line not
    through the die centre, the mass-weighted mean of the x pulls exactly at the die centre, one block much bigger
    than the others.  The x coordinates then converge to a vector of zero weighted mean and the y coordinates collapse
    onto a linear function of x with an offset: the second projection of orthogonalize (against x) is degenerate while
    the first one (against the constant vector) is not."""
    u = MICRO // 10                                    # the die is 10 x 10 units of u micro-units (or 10 x 8 / 8 x 10)
    wq, hq = rng.choice([(10, 10), (10, 10), (10, 8), (8, 10)])
    k = rng.choice([3, 3, 4])                          # small blocks
    ratio = rng.choice([4, 6, 6, 8])                   # big block = ratio x a small one
    # pulls of the small blocks (relative to the centre, in quarters of a unit), distinct, on one side; the big one balances
    while True:
        pulls = sorted(rng.sample(range(4, 15), k))    # 1.0 .. 3.5
        if sum(pulls) % ratio == 0:
            break
    big = -sum(pulls) // ratio                         # quarters; ratio * big + sum(pulls) = 0: mass-balanced
    side = rng.choice([1, -1])                         # mirror in x
    slope_n, slope_d = rng.choice([(1, 1), (1, 1), (1, 2), (3, 4), (-1, 1), (-1, 2)])
    off = rng.choice([5, 6, 7, 8]) * rng.choice([1, -1])          # offset of the line at the centre, quarters (1.25 .. 2)
    small_area = rng.choice([8, 10, 12]) * (min(wq, hq) / 10) ** 2
    areas = [ratio * small_area] + [small_area] * k
    if math.sqrt(areas[0] / math.pi) > min(wq, hq) / 2 - 0.2:
        return collinear_case(rng, emb)
    # keep the instances in which the y coordinates really collapse onto the line (some block is pulled beyond its own
    # span: the iteration contracts) and in which a y vector that is shifted by its mean but not re-normalized would
    # leave the die -- the situation a careless orthogonalize creates; a correct one returns the normalized vector
    px = [big / 4] + [v / 4 for v in pulls]
    py = [slope_n * v / slope_d + off / 4 for v in px]
    span = [hq / 2 - math.sqrt(a / math.pi) for a in areas]
    rho = min(sp / abs(v) if v else 9.0 for sp, v in zip(span, py))
    if not (rho < 0.9 and any(abs(slope_n * v / slope_d) * rho > sp + 0.03 for v, sp in zip(px, span))):
        return collinear_case(rng, emb)
    mods = [{"kind": "soft", "area": a * u * u} for a in areas]
    nets, pins = [], []
    q4 = u // 4

    def pin(xq):                                       # a pin at x (quarters from the centre) on the line, or None if outside
        x = wq * u // 2 + side * xq * q4
        y = hq * u // 2 + (slope_n * xq * q4) // slope_d + off * q4
        if not (0 <= x <= wq * u and 0 <= y <= hq * u):
            return None
        if rng.random() < 0.6:
            m = {"kind": "fixed", "terminal": 1, "center": [x, y]}
        else:                                          # a small fixed block centred on the pin
            e = u // 20
            if x - e < 0 or y - e < 0:
                return None
            m = {"kind": "fixed", "rects": [[x - e, y - e, x + e, y + e]]}
        pins.append(m)
        return len(areas) + len(pins)
    for i, p in enumerate([big] + pulls):
        d = rng.choice([1, 2, 3, 6, 12])               # the two pins of the block at pull -/+ d quarters
        a, b = pin(p - d), pin(p + d)
        if a is None or b is None:
            return collinear_case(rng, emb)
        nets += [[1, [i + 1, a]], [1, [i + 1, b]]]
    return {"src": "rnd", "motif": "collinear_pins", "emb": emb, "seed": rng.randrange(1 << 30), "trials": rng.choice([1, 1, 1, 2]),
            "die": [wq * u, hq * u], "mods": mods + pins, "nets": nets}


# ------------------------------------------------------------------------------------------------ real code
def build_tree(case: dict, emb: Emb) -> dict:
    """The YAML tree of the netlist (Netlist accepts a tree as well as text)."""
    mods = {}
    for i, m in enumerate(case["mods"]):
        d: dict = {}
        if m["kind"] == "soft":
            # "fit": the disc is exactly as wide as that die side: area = pi * (side/2)^2 computed from the very number the
            # die gets, so that the code's own sqrt(area/pi) gives a span of 0 (or one unit in the last place)
            a = math.pi * (float(emb.length(m["fit"])) / 2) ** 2 if "fit" in m else emb.area(m["area"])
            if "split" in m:
                p, q = m["split"]
                d["area"] = {"_": a * (q - p) / q, "dsp": a * p / q}
            else:
                d["area"] = a
            if "center" in m:
                d["center"] = [emb.coord(m["center"][0]), emb.coord(m["center"][1])]
        elif m.get("terminal"):
            d["terminal"], d["fixed"] = True, True
            d["center"] = [emb.coord(m["center"][0]), emb.coord(m["center"][1])]
        else:
            d[m["kind"]] = True
        if "rects" in m:
            d["rectangles"] = [emb.rect(r) for r in m["rects"]]
        mods[f"M{i + 1}"] = d
    nets = []
    for w, pins in case["nets"]:
        e = [f"M{p}" for p in pins]
        if w != 1:
            e.append(w)
        nets.append(e)
    return {"Modules": mods, "Nets": nets}


class _Sampler:
    """Keeps a sample of the normalize calls of one dimension: the first ones, powers of two, the last two and
    the call with the largest excess over the span (selection only -- TLC judges what is kept)."""

    def __init__(self):
        self.kept = {}
        self.worst = None
        self.last = []
        self.n = 0
        self.abs_skip = 0

    def add(self, before, after, span, fixed):
        j = self.n
        self.n += 1
        exc = max((abs(after[i]) - span[i] for i in range(len(after)) if not fixed[i]), default=0.0)
        # signature of normalize's ABSOLUTE "at the centre" test (|x| <= 10e-10): a node it skipped ends beyond its span
        if any(not fixed[i] and abs(before[i]) <= 10e-10 and abs(after[i]) - span[i] > 1e-6 * max(span) for i in range(len(after))):
            self.abs_skip = 1
        rec = (j, before, after, exc)
        if j <= 3 or (j & (j - 1)) == 0:
            self.kept[j] = rec
        if self.worst is None or exc > self.worst[3]:
            self.worst = rec
        self.last = (self.last + [rec])[-2:]

    def sample(self):
        out = dict(self.kept)
        for rec in self.last + ([self.worst] if self.worst else []):
            out[rec[0]] = rec
        return [out[j] for j in sorted(out)]


def run_case(case: dict) -> dict:
    """Runs one case on the real code (in a forked child) -> observation (trace without id) or a `raised` record."""
    import copy
    import random as pyrandom
    from frame.geometry.geometry import Rectangle, Shape
    import tools.spectral.spectral as sp
    import tools.spectral.spectral_algorithm as sa

    emb = EMBS[case["emb"]]
    u = float(emb.step)
    q = lambda v: int(round(float(v) / u))                                    # noqa: E731
    Rectangle.undefine_epsilon()
    tree = build_tree(case, emb)
    s = sp.Spectral(tree)                        # an exception here is a harness problem (invalid netlist built)
    names = [m.name for m in s.modules]
    idx = {nm: i + 1 for i, nm in enumerate(names)}
    assert names == [f"M{i + 1}" for i in range(len(names))]

    def corners(r):
        cx, cy, w, h = r.center.x, r.center.y, r.shape.w, r.shape.h
        return [q(cx - w / 2), q(cy - h / 2), q(cx + w / 2), q(cy + h / 2)]

    def snap():
        area = [[int(round(m.area() / (u * u) / 1000))] + [int(round(a / (u * u) / 1000)) for _, a in sorted(m.area_regions.items())]
                for m in s.modules]
        rects = [[corners(r) for r in m.rectangles] for m in s.modules]
        edges = [[int(round(e.weight * 10000)), [idx[m.name] for m in e.modules]] for e in s.edges]
        return area, rects, edges

    def place(wq, hq, ntrials, first):
        a_obj, rects0, e_obj = snap()
        # the reference for "areas and nets unchanged" is the INPUT document, not the object after loading (building the
        # graph in the constructor is part of spectral placement)
        qa = lambda a: int(round(a / (u * u) / 1000))                             # noqa: E731
        area0 = []
        for d in tree["Modules"].values():
            if "area" in d:
                vals = [d["area"][k] for k in sorted(d["area"])] if isinstance(d["area"], dict) else [d["area"]]
                tot = sum(d["area"].values()) if isinstance(d["area"], dict) else d["area"]
            else:
                tot = sum(r[2] * r[3] for r in d.get("rectangles", []))      # a terminal has no area
                vals = [tot]
            area0.append([qa(tot)] + [qa(v) for v in vals])
        edges0 = [[int(round(w * 10000)), list(pins)] for w, pins in case["nets"]]
        if not first:      # a later placement of the same object: the reference is the object as the previous one left it
            area0, edges0 = a_obj, e_obj
        kind = [m["kind"] for m in case["mods"]]
        # consistency of the harness's view with FRAME's (soft / hard / fixed as loaded)
        for m, k in zip(s.modules, kind):
            assert (m.is_fixed, m.is_hard and not m.is_fixed) == (k == "fixed", k == "hard"), "kind mismatch"
        rad = [q(math.sqrt(m.area() / math.pi)) for m in s.modules]
        p0 = []
        for m, k in zip(s.modules, kind):
            if k == "soft":
                p0.append([0, 0])
            else:          # (after a placement the centre of a hard module is dropped: its rectangles carry the position)
                c = m.center if m.num_rectangles == 0 else copy.deepcopy(m).calculate_center_from_rectangles()
                p0.append([q(c.x), q(c.y)])

        # ---- wrappers on the module-level names (resolved at call time by the code under test)
        trials, cur, state = [], [], {"span": None, "calls": 0}
        have_norm, have_sld = hasattr(sa, "normalize"), hasattr(sp, "spectral_layout_die")
        if have_norm:
            orig_norm = sa.normalize

            def w_norm(x, max_span, is_fixed):
                before = list(x)
                r = orig_norm(x, max_span, is_fixed)
                if state["span"] is not max_span:          # max_span[d] is a distinct list per dimension
                    state["span"] = max_span
                    cur.append(_Sampler())
                cur[-1].add(before, list(x), max_span, is_fixed)
                state["calls"] += 1
                return r
            sa.normalize = w_norm
        if have_sld:
            orig_sld = sp.spectral_layout_die

            def w_sld(adj, mass, size, initial, fixed):
                cur.clear()
                state["span"] = None
                res = orig_sld(adj, mass, size, initial, fixed)
                coord, wl, niter = res
                state["abs_skip"] = max(state.get("abs_skip", 0), max((smp.abs_skip for smp in cur), default=0))
                trials.append({"dims": [smp.sample() for smp in cur], "ncalls": [smp.n for smp in cur],
                               "coord": [list(coord[0]), list(coord[1])], "wl": wl, "niter": list(niter)})
                return res
            sp.spectral_layout_die = w_sld

        if first:
            pyrandom.seed(case["seed"])
        try:
            s.spectral_layout(Shape(emb.length(wq), emb.length(hq)), ntrials, False)
        except Exception as e:  # the statement promises a placement for every seed: clause `returns`
            import traceback
            tb = traceback.extract_tb(e.__traceback__)[-1]
            return {"status": "raised", "exc": f"{type(e).__name__}: {e}"[:300], "where": tb.name, "line": tb.lineno,
                    "trials_done": len(trials)}
        finally:
            if have_norm:
                sa.normalize = orig_norm
            if have_sld:
                sp.spectral_layout_die = orig_sld

        # ---- events
        # one call before the loop + one per pass (a pass may end before its normalize: then one call less)
        steps = int(have_norm and have_sld and len(trials) == ntrials and
                    all(len(t["dims"]) == 2 and all(nc in (ni, ni + 1) for nc, ni in zip(t["ncalls"], t["niter"])) for t in trials))
        qv = lambda vec: [q(v) for v in vec]                                      # noqa: E731
        ev = lambda t, d=0, k=0, a=(), b=(), w=0: {"t": t, "d": d, "k": k, "a": list(a), "b": list(b), "w": w}   # noqa: E731
        events = []
        max_exc = 0.0
        for t in trials:
            if steps:
                events.append(ev("seed", a=qv(t["dims"][0][0][1]), b=qv(t["dims"][1][0][1])))
                for d in (1, 2):
                    for (j, before, after, exc) in t["dims"][d - 1]:
                        max_exc = max(max_exc, exc / u)
                        events.append(ev("norm" if j == 0 else "step", d=d, k=j, a=qv(before), b=qv(after)))
                    if d == 1:
                        events.append(ev("enddim", d=1))
            events.append(ev("endtrial", a=qv(t["coord"][0]), b=qv(t["coord"][1]), w=int(round(t["wl"] / (1000 * u)))))
        events.append(ev("commit"))

        # ---- the committed placement, through the public API
        pos = []
        for m, k in zip(s.modules, kind):
            if k == "soft":
                if m.center is None:
                    return {"status": "raised", "exc": f"NoCentre: soft module {m.name} has no centre after spectral_layout",
                            "where": "spectral_layout", "line": 0, "trials_done": len(trials)}
                pos.append([q(m.center.x), q(m.center.y)])
            else:   # hard modules carry their position in their rectangles (the centre is dropped)
                if m.num_rectangles == 0:     # a terminal: spectral_layout keeps (and rewrites) its centre
                    if m.center is None:
                        return {"status": "raised", "exc": f"NoCentre: terminal {m.name} lost its centre", "where": "spectral_layout",
                                "line": 0, "trials_done": len(trials)}
                    pos.append([q(m.center.x), q(m.center.y)])
                    continue
                c = copy.deepcopy(m).calculate_center_from_rectangles()
                pos.append([q(c.x), q(c.y)])
        area1, rects1, edges1 = snap()
        return {"status": "ok", "steps": steps, "half": [wq // 2, hq // 2], "kind": kind, "area": area0, "rad": rad,
                "rects": rects0, "p0": p0, "edges": edges0, "trials": ntrials, "events": events,
                "final": {"pos": pos, "rects": rects1, "area": area1, "edges": edges1},
                "info": {"abs_skip": state.get("abs_skip", 0), "calls": state["calls"], "max_excess": max_exc, "trials_seen": len(trials),
                         "niter": [t["niter"] for t in trials]}}

    obs = place(case["die"][0], case["die"][1], case["trials"], True)
    if obs["status"] == "ok" and case.get("again"):
        # object lifecycle: the SAME Spectral object is placed again (same die, or another die shape); each placement is
        # judged on its own
        wq2, hq2, n2 = case["again"]
        obs["again"] = place(wq2, hq2, n2, False)
    return obs


# ------------------------------------------------------------------------------------------------ decision
def decide(ctx: Ctx, cases: list[dict]):
    prepare_imports()
    import tools.spectral.spectral  # noqa: F401  (imported in the parent, used only in the children)
    t0 = time.time()
    results = run_cases(run_case, cases, nproc=16, case_timeout=600)
    ctx.extra["real_runs_wall_s"] = round(time.time() - t0, 1)
    traces, owner, skipflag = {}, {}, {}
    st = ctx.extra.setdefault("runs", {"total": 0, "returned": 0, "no_result": 0, "trials_observed": 0,
                                       "normalize_calls_observed": 0, "events_judged": 0, "without_step_events": 0,
                                       "max_excess_over_span_micro_units": 0.0})
    pairs = []
    for c, (status, val) in zip(cases, results):
        pairs.append((c, status, val))
        if status == "ok" and isinstance(val, dict) and "again" in val:          # the second placement of the same object
            pairs.append(({**c, "round": 2}, "ok", val.pop("again")))
    st["second_placements"] = st.get("second_placements", 0)
    for c, status, val in pairs:
        st["total"] += 1
        st["second_placements"] += int(c.get("round") == 2)
        feat = {"emb": c["emb"], "src": c["src"], "motif": c.get("motif", ""), "round": c.get("round", 1)}
        if status != "ok":
            st["no_result"] += 1
            ctx.violation("returns", c, {"status": status}, {**feat, "exc": status})
            continue
        if val["status"] == "raised":
            st["no_result"] += 1
            # clause `returns` is kept apart in the evidence (coverage.returns_clause) so that it can be judged on its own
            rc = ctx.extra.setdefault("returns_clause", {"runs_that_raised": 0, "by_cause": {}})
            rc["runs_that_raised"] += 1
            cause = f"{val['exc'].split(':')[0]} in {val['where']}"
            rc["by_cause"][cause] = rc["by_cause"].get(cause, 0) + 1
            ctx.count()
            ctx.violation("returns", c, {k: val[k] for k in ("exc", "where", "line", "trials_done")},
                          {**feat, "exc": val["exc"].split(":")[0], "where": val["where"]})
            continue
        info = val.pop("info")
        val.pop("status")
        st["returned"] += 1
        st["trials_observed"] += info["trials_seen"]
        st["normalize_calls_observed"] += info["calls"]
        st["max_excess_over_span_micro_units"] = max(st["max_excess_over_span_micro_units"], round(info["max_excess"], 6))
        if not val["steps"]:
            st["without_step_events"] += 1
        key = digest(val)
        if key not in traces:
            val["id"] = key
            traces[key] = val
            owner[key] = c
            skipflag[key] = info["abs_skip"]
    verdicts = tlc.validate_traces(ctx, "SpectralTrace", "SpectralTrace", list(traces.values()), chunk=1500)
    for key, v in verdicts.items():
        t, c = traces[key], owner[key]
        st["events_judged"] += len(t["events"])
        nmov = sum(1 for k in t["kind"] if k != "fixed")
        ctx.count(key, nontrivial=bool(t["steps"]) and nmov >= 4, n=len(t["events"]))
        for (l, clause) in v["fails"]:
            e = t["events"][l - 1]
            detail = {"event": l, "type": e["t"], "d": e["d"], "k": e["k"], "half": t["half"], "rad": t["rad"], "kind": t["kind"]}
            if e["t"] == "commit":
                detail["final"] = t["final"]["pos"]
            else:
                detail["a"], detail["b"] = e["a"], e["b"]
            ctx.violation(clause, c, detail, {"emb": c["emb"], "src": c["src"], "event": e["t"], "motif": c.get("motif", ""),
                                              "abs_threshold_skip": skipflag[key], "round": c.get("round", 1)})
        for (l, clause) in v["drift"]:
            ctx.model_drift(f"{clause} at {t['events'][l - 1]['t']}")
    for t in list(traces.values())[:2]:
        small = dict(t)
        small["events"] = t["events"][:4] + [{"...": len(t["events"]) - 5}] + t["events"][-1:]
        ctx.sample({"case": owner[t["id"]], "trace": small})


def run(ctx: Ctx) -> int:
    if ctx.replay:
        rec = json.load(open(ctx.replay))
        decide(ctx, [rec["case"]])
        return ctx.finish("model_checking", "replay of one recorded case")
    tier = ctx.tier
    quick = tier == "quick"
    tlc.model_check(ctx, "SpectralMC", f"Spectral_mc_{tier}", vacuity_ignore=("EmitCase", "EndTrialKeep", "Again"))
    tlc.model_check(ctx, "SpectralMC", f"Spectral_mc_{tier}_b", vacuity_ignore=("EmitCase", "Again"))
    tlc.model_check(ctx, "SpectralMC", f"Spectral_mc_{tier}_r", vacuity_ignore=("EmitCase", "EndTrialKeep"))     # placed twice
    if not quick:
        tlc.model_check(ctx, "SpectralMC", "Spectral_mc_thorough_c", vacuity_ignore=("EmitCase", "EndTrialKeep", "Again"))
    nets = tlc.generate(ctx, "SpectralMC", f"Spectral_gen_{tier}")
    nets.sort(key=canon)
    rng = random.Random(ctx.seed * 1000003 + 14)
    ctx.extra["netlists_from_tlc"] = len(nets)
    # a seeded sample of the generated universe is replayed (quick 260, thorough 3600 netlists)
    nets = rng.sample(nets, min(len(nets), 260 if quick else 3600))
    cases, outside = [], 0
    for i, net in enumerate(nets):
        c = case_from_tlc(net, EMB_ORDER[i % len(EMB_ORDER)], ctx.seed * 7919 + i)
        if c is None:
            outside += 1
        else:
            cases.append(c)
    ctx.extra["tlc_netlists_outside_quantifier"] = outside      # a movable disc does not fit in that die
    ctx.extra["cases_from_tlc"] = len(cases)
    nrnd = 90 if quick else 1500
    cases += [random_case(rng, EMB_ORDER[i % len(EMB_ORDER)]) for i in range(nrnd)]
    ctx.extra["cases_random"] = nrnd
    ncol = 42 if quick else 600
    # (the loop tolerance of the code is max(size)*n*1e-10, absolute: only on small dies does the iteration run long
    # enough for the collapse to reach rounding level, so the motif is mostly run on dies of side 1 and 10)
    col_embs = ["unit", "ten", "unit", "ten", "unit", "tiny"]
    cases += [collinear_case(rng, col_embs[i % len(col_embs)]) for i in range(ncol)]
    ctx.extra["cases_collinear_pins_motif"] = ncol
    nfit = 32 if quick else 400
    cases += [exact_fit_case(rng, EMB_ORDER[i % len(EMB_ORDER)]) for i in range(nfit)]
    ctx.extra["cases_exact_fit_motif"] = nfit
    # object lifecycles: every third case places the same Spectral object a second time, on the same die or on the die
    # with width and height exchanged (the discs still fit: the smaller side is the same)
    for i, c in enumerate(cases):
        if i % 4 == 0 and c.get("motif") != "exact_fit":
            w2, h2 = c["die"] if i % 8 == 0 else (c["die"][1], c["die"][0])
            c["again"] = [w2, h2, 1]
    decide(ctx, cases)
    ctx.extra["embeddings"] = EMB_ORDER
    ctx.assumptions += [
        "numeric optimiser: the specification is the contract of every step (what normalize, an iteration, a trial, "
        "the commit may do), not a prediction of what the power iteration converges to",
        "observations quantised to 1e-6 of the larger die side, tolerance 2 units (sum of two roundings); a disc "
        "leaving the die by less than that is not seen",
        "the radius sqrt(area/pi) is computed by the harness from the area FRAME reports (TLC has no square root) "
        "and cross-checked coarsely by TLC (d_radius)",
        "of the up to 10000 normalize calls per dimension a sample is judged: the first four, powers of two, the "
        "last two and the call with the largest excess over the span; all trials and the committed placement are judged",
        "float dimension sampled by 6 scales of the micro-unit (1e-6, 1 as YAML integers, 0.1, 1/3, 1e-3, 1e3); the "
        "collinear-fixed-pins motif mostly on dies of side 1 and 10 (the loop tolerance of the code is absolute)",
        "inputs: connected netlists, >= 4 movable modules of non-zero area, fixed modules = fixed blocks and fixed terminals "
        "(pins; movable terminals are not generated), every movable disc fits "
        "with a margin >= 1e-4 of the die side, trials >= 1",
    ]
    return ctx.finish(
        "model_checking",
        "one evaluation = one event of a run (seed / normalize call / trial result / committed placement) judged by "
        "TLC against the contracts of Spectral.tla; distinct non-trivial = distinct observed runs (netlist x scale x "
        "seed x trials) with >= 4 movable modules that returned and whose per-step events were observed",
        exhaustive=False)
