"""C04 -- Netlist write -> read round trip preserves the design (and the FPEF binding shared with C05).

TLC (Fpef) enumerates every document of a bounded universe (modules of every kind x area form x centre x
aspect ratio x rectangles with regions, nets of several arities and weights), proves on the model that
Read(Write(n)) = n and Write(Read(Write(n))) = Write(n), and emits the documents.  Each document is rendered as
FPEF under the float embeddings, loaded with frame.netlist.Netlist (= n), written with n.write_yaml(), read back
(= n2) and written again.  Both netlists are observed through the public accessors, pulled back to the integer
lattice, and TLC (FpefTrace) judges the clauses of the statement on the two observations (modules in order, kind,
per-region areas, centre, aspect ratio, rectangles with regions, nets with members and weights, repeatable text).
Whether the first observation equals the model's Read(doc) and the written tree equals the model's Write(n) is model
conformance only.  A seeded random driver adds larger documents on the same path.

This module also holds the binding shared with C05 (rendering a document under an embedding, observing a Netlist,
parsing a written text back into the abstract tree, applying a defect patch, the random document generator).
"""
from __future__ import annotations

import copy
import json
import random
import re
from fractions import Fraction as F

from ..core import Ctx, MachineryError, canon, digest
from ..forkpool import prepare_imports, run_cases
from ..lattice import ALL, EMBEDDINGS, TOL, OffLattice
from .. import tlc

GROUND = "g"                      # the specification's name of FRAME's ground region "_"
# An integer embedding with a step beyond 2^53 (even, so that centres stay integral): every lattice coordinate becomes a
# Python int that no double represents when the lattice value is odd.  Rectangle numbers are only ECHOED by the reader
# and the writer, so under this embedding they are pulled back EXACTLY (integer division, no tolerance): a conversion
# through float anywhere on the way shows as an off-lattice rectangle.
from ..lattice import Emb
HUGE = Emb("huge", 2 ** 54 + 2, 0, as_int=True)


def embedding(name: str):
    return HUGE if name == "huge" else EMBEDDINGS[name]
BAD_NAMES = {"3x", "a-b", "x y", "", "B1<LF>", "a<LF>b", "B1<SP>", "B1<TAB>", "dsp<LF>", "r<SP>"}
UNKNOWN = "Zq"
_IDENT = re.compile(r"[A-Za-z_][A-Za-z0-9_]*")
_RESERVED = {"true", "false", "yes", "no", "on", "off", "null", "y", "n", "True", "False", "Yes", "No", "On", "Off",
             "Null", "NULL", "TRUE", "FALSE", "YES", "NO", "ON", "OFF", "_"}
_PLAIN_SENSITIVE = {"y", "n", "yes", "no", "on", "off", "null", "true", "false", "nan", "inf"}   # given QUOTED in a source text
FLAG_KEYS = ("fixed", "hard", "flip", "terminal")


# ------------------------------------------------------------------------------------------------ forward: doc -> FPEF
def _dimless(fr: F, emb):
    """weights and aspect ratios are not scaled by the embedding; ints only under the integer embedding"""
    if emb.as_int and fr.denominator == 1:
        return int(fr)
    return float(fr)


_TOKENS = (("<LF>", "\n"), ("<TAB>", "\t"), ("<SP>", " "))


def name_out(s: str) -> str:
    """the specification writes control / blank characters of (invalid) names as tokens"""
    for tok, ch in _TOKENS:
        s = s.replace(tok, ch)
    return s


def _region_out(r: str) -> str:
    return "_" if r == GROUND else name_out(r)


def to_tree(doc: dict, emb) -> dict:
    """abstract document (lattice integers) -> the YAML tree FRAME's reader gets, under embedding emb"""
    mods = {}
    for md in doc["mods"]:
        info: dict = {}
        a = md["area"]
        if a["form"] == "s":
            info["area"] = emb.area(a["ent"][0][1])
        elif a["form"] == "d":
            info["area"] = {_region_out(e[0]): emb.area(e[1]) for e in a["ent"]}
        c = md["center"]
        if c:
            info["center"] = [emb.coord(F(c[0], c[1])), emb.coord(F(c[2], c[3]))]
        s = md["aspect"]
        if s["form"] == "s":
            info["aspect_ratio"] = _dimless(F(s["v"][0], s["v"][1]), emb)
        elif s["form"] == "p":
            info["aspect_ratio"] = [_dimless(F(s["v"][0], s["v"][1]), emb), _dimless(F(s["v"][2], s["v"][3]), emb)]
        for k in FLAG_KEYS:
            if md["flags"][k] != -1:
                info[k] = bool(md["flags"][k])
        r = md["rects"]
        if r["form"] != "none":
            rl = []
            for t in r["rs"]:
                q = emb.rect(t)
                if t[4] != GROUND:
                    q.append(name_out(t[4]))
                rl.append(q)
            info["rectangles"] = rl[0] if r["form"] == "flat" else rl
        for k in md["extra"]:
            info[k] = 1
        mods[name_out(md["name"])] = info
    nets = []
    for nd in doc["nets"]:
        e = [name_out(q) for q in nd["pins"]]
        if nd["w"]:
            e.append(_dimless(F(nd["w"][0], nd["w"][1]), emb))
        nets.append(e)
    tree = {"Modules": mods, "Nets": nets}
    for k in doc["extra"]:
        tree[k] = {}
    return tree


def _scalar(v) -> str:
    if isinstance(v, bool):
        return "true" if v else "false"
    if isinstance(v, int):
        return str(v)
    if isinstance(v, float):
        return repr(v)
    if isinstance(v, str):
        if _IDENT.fullmatch(v) and v not in _RESERVED and v.lower() not in _PLAIN_SENSITIVE:
            return v
        return json.dumps(v)
    raise MachineryError(f"cannot render {v!r}")


def _flow(v) -> str:
    if isinstance(v, dict):
        return "{" + ", ".join(f"{_scalar(k)}: {_flow(x)}" for k, x in v.items()) + "}"
    if isinstance(v, list):
        return "[" + ", ".join(_flow(x) for x in v) + "]"
    return _scalar(v)


def to_text(tree: dict) -> str:
    """YAML text in the style of the format document (flow mappings inside a block top level)"""
    out = []
    for key, val in tree.items():
        if isinstance(val, dict) and val:
            out.append(f"{_scalar(key)}: {{")
            out.append(",\n".join(f"  {_scalar(k)}: {_flow(x)}" for k, x in val.items()))
            out.append("}")
        elif isinstance(val, list) and val:
            out.append(f"{_scalar(key)}: [")
            out.append(",\n".join(f"  {_flow(x)}" for x in val))
            out.append("]")
        else:
            out.append(f"{_scalar(key)}: {_flow(val)}")
    return "\n".join(out) + "\n"


# ------------------------------------------------------------------------------------------------ backward: pull-back
def _rat(q: F, what: str, maxden: int = 4096, tol: float = TOL) -> list[int]:
    r = q.limit_denominator(maxden)
    if abs(q - r) > tol:
        raise OffLattice(f"{what}: {float(q)!r} is not a small rational")
    return [r.numerator, r.denominator]


def back_coord_rat(emb, v) -> list[int]:
    return _rat((F(v) - emb.off) / emb.step, "coordinate")


def back_area_int(emb, v) -> int:
    q = F(v) / (emb.step * emb.step)
    k = round(q)
    if abs(q - k) > TOL * max(1, abs(k)):
        raise OffLattice(f"area {float(v)!r} is not on the lattice ({emb.name})")
    return int(k)


def back_dimless(v) -> list[int]:
    return _rat(F(v), "ratio", 1000, 1e-9)


def _region_in(r) -> str:
    if not isinstance(r, str):
        raise OffLattice(f"region {r!r} is not a string")
    return GROUND if r == "_" else r


def _exact_rect(emb, cx, cy, w, h) -> list:
    """corner coordinates by exact rational arithmetic; every one must be an integer multiple of the step"""
    out = []
    for c, d, sgn in ((cx, w, -1), (cy, h, -1), (cx, w, 1), (cy, h, 1)):
        q = (F(c) + sgn * F(d) / 2 - emb.off) / emb.step
        if q.denominator != 1:
            raise OffLattice(f"rectangle number not echoed exactly under the {emb.name} embedding: centre {c!r}, size {d!r}")
        out.append(int(q))
    return out


def _rect5(emb, r) -> list:
    if emb is HUGE:
        return _exact_rect(emb, r.center.x, r.center.y, r.shape.w, r.shape.h) + [_region_in(r.region)]
    return emb.back_rectangle(r) + [_region_in(r.region)]


def observe(nl, emb) -> dict:
    """a loaded Netlist seen through its public accessors, as lattice integers (the `obs` of FpefTrace.tla)"""
    step = float(emb.step)
    mods = []
    for m in nl.modules:
        c = m.center
        a = m.aspect_ratio
        mods.append({
            "name": m.name,
            "kind": [int(bool(m.is_hard)), int(bool(m.is_fixed)), int(bool(m.is_terminal)), int(bool(m.flip))],
            "areas": [[_region_in(reg), back_area_int(emb, v)] for reg, v in m.area_regions.items()],
            "total": back_area_int(emb, m.area()),
            "center": [] if c is None else back_coord_rat(emb, c.x) + back_coord_rat(emb, c.y),
            "aspect": [] if a is None else back_dimless(a.min_wh) + back_dimless(a.max_wh),
            "rects": [_rect5(emb, r) for r in m.rectangles],
        })
    nets = []
    for e in nl.edges:
        try:
            wl = int(round(100.0 * float(e.wire_length) / step))
        except AssertionError:
            wl = -1
        nets.append({"pins": [b.name for b in e.modules], "w": back_dimless(e.weight), "wl": wl})
    try:
        total = int(round(100.0 * float(nl.wire_length) / step))
    except AssertionError:
        total = -1
    return {"mods": mods, "nets": nets,
            "allrects": [_rect5(emb, r) for r in nl.rectangles],
            "fixedrects": [_rect5(emb, r) for r in nl.fixed_rectangles()],
            "wl": total}


def _is_num(x) -> bool:
    return isinstance(x, (int, float)) and not isinstance(x, bool)


def parse_tree(tree, emb) -> dict:
    """a YAML tree (as loaded from a text FRAME wrote) -> abstract document; raises ValueError/OffLattice if it is
    outside the shapes the specification can spell"""
    if not isinstance(tree, dict):
        raise ValueError("root is not a mapping")
    doc = {"mods": [], "nets": [], "extra": []}
    for key, val in tree.items():
        if key == "Modules":
            for name, info in (val or {}).items():
                if not isinstance(name, str):
                    raise ValueError(f"module key {name!r} is not a string")
                md = {"name": name, "area": {"form": "none", "ent": []}, "center": [], "aspect": {"form": "none", "v": []},
                      "flags": {k: -1 for k in FLAG_KEYS}, "rects": {"form": "none", "rs": []}, "extra": []}
                for k, v in (info or {}).items():
                    if k == "area":
                        if _is_num(v):
                            md["area"] = {"form": "s", "ent": [[GROUND, back_area_int(emb, v)]]}
                        else:
                            md["area"] = {"form": "d", "ent": [[_region_in(r), back_area_int(emb, x)] for r, x in v.items()]}
                    elif k == "center":
                        md["center"] = back_coord_rat(emb, v[0]) + back_coord_rat(emb, v[1])
                    elif k == "aspect_ratio":
                        if _is_num(v):
                            md["aspect"] = {"form": "s", "v": back_dimless(v)}
                        else:
                            md["aspect"] = {"form": "p", "v": back_dimless(v[0]) + back_dimless(v[1])}
                    elif k in FLAG_KEYS:
                        if not isinstance(v, bool):
                            raise ValueError(f"flag {k} is not a boolean")
                        md["flags"][k] = int(v)
                    elif k == "rectangles":
                        flat = len(v) > 0 and _is_num(v[0])
                        rl = [v] if flat else v
                        rs = []
                        for r in rl:
                            corners = _exact_rect(emb, r[0], r[1], r[2], r[3]) if emb is HUGE else emb.back_rect(r[0], r[1], r[2], r[3])
                            rs.append(corners + [_region_in(r[4]) if len(r) > 4 else GROUND])
                        md["rects"] = {"form": "flat" if flat else "list", "rs": rs}
                    else:
                        md["extra"].append(str(k))
                doc["mods"].append(md)
        elif key == "Nets":
            for e in (val or []):
                if e and _is_num(e[-1]):
                    pins, w = e[:-1], back_dimless(e[-1])
                else:
                    pins, w = e, []
                if not all(isinstance(q, str) for q in pins):
                    raise ValueError("a pin is not a string")
                doc["nets"].append({"pins": list(pins), "w": w})
        else:
            doc["extra"].append(str(key))
    return doc


def apply_patch(doc: dict, p: dict) -> dict:
    """generic application of a defect patch of Fpef!Inject (no knowledge of defect classes here)"""
    d = copy.deepcopy(doc)
    at, i, val = p["at"], p["i"], copy.deepcopy(p["val"])
    if at == "name":
        old = d["mods"][i - 1]["name"]
        d["mods"][i - 1]["name"] = val
        for nd in d["nets"]:
            nd["pins"] = [val if q == old else q for q in nd["pins"]]
    elif at in ("area", "rects"):
        d["mods"][i - 1][at] = val
    elif at == "mextra":
        d["mods"][i - 1]["extra"] = val
    elif at == "net":
        d["nets"][i - 1] = val
    elif at == "addnet":
        d["nets"].append(val)
    elif at == "extra":
        d["extra"] = val
    else:
        raise MachineryError(f"unknown patch target {at}")
    return d


def fix_json(v):
    """TLC prints an empty function as {}: the specification only has empty sequences there"""
    if isinstance(v, dict):
        if not v:
            return []
        return {k: fix_json(x) for k, x in v.items()}
    if isinstance(v, list):
        return [fix_json(x) for x in v]
    return v


def load(source, emb, keep_tolerance=False):
    """Netlist(source) with fresh-process tolerance registers -> ("ok", netlist) | ("rej", exception name)
    keep_tolerance: the registers are left as the previous load set them (second design of a process)"""
    from frame.netlist.netlist import Netlist
    from frame.geometry.geometry import Rectangle
    if not keep_tolerance:
        Rectangle.undefine_epsilon()
    try:
        return "ok", Netlist(source)
    except Exception as e:   # any exception counts as rejection (AssertionError expected)
        return "rej", f"{type(e).__name__}: {str(e)[:120]}"


def load_event(op: str, source, emb) -> tuple[dict, object]:
    st, v = load(source, emb)
    if st == "rej":
        return {"op": op, "acc": 0, "exc": v}, None
    try:
        return {"op": op, "acc": 1, "obs": observe(v, emb)}, v
    except OffLattice as e:
        return {"op": op, "acc": 1, "off": str(e)}, v


# ------------------------------------------------------------------------------------------------ C04 on one document
def run_case(case: dict) -> dict:
    """-> {embedding: [events]}: load, save, reload, resave on the real code"""
    from frame.utils.utils import read_yaml
    out = {}
    for en in case["embs"]:
        emb = embedding(en)
        evs = []
        tree = to_tree(case["doc"], emb)
        ev, n1 = load_event("load", to_text(tree) if case.get("text") else tree, emb)
        evs.append(ev)
        if n1 is not None and "obs" in ev:
            try:
                y1 = n1.write_yaml()
                sv = {"op": "save", "ok": 1, "yd": digest(y1), "parsed": 0, "y": {"mods": [], "nets": [], "extra": []}, "text": y1}
                try:
                    sv["y"] = parse_tree(read_yaml(y1), emb)
                    sv["parsed"] = 1
                except Exception:
                    pass
            except Exception as e:
                y1 = None
                sv = {"op": "save", "ok": 0, "exc": f"{type(e).__name__}: {str(e)[:120]}"}
            evs.append(sv)
            if y1 is not None:
                ev2, n2 = load_event("reload", y1, emb)
                evs.append(ev2)
                if n2 is not None:
                    try:
                        y2 = n2.write_yaml()
                        evs.append({"op": "resave", "ok": 1, "yd": digest(y2), "yd1": sv["yd"], "text": y2})
                    except Exception as e:
                        evs.append({"op": "resave", "ok": 0, "yd": "", "yd1": sv["yd"], "exc": f"{type(e).__name__}"})
            if case.get("file_emb") == en:
                evs += file_round_trip(n1, emb)
        out[en] = evs
    return out


def file_round_trip(n1, emb) -> list:
    """the same round trip through FILES: write_yaml(path), Netlist(path), write_yaml(path2), the files compared byte for
    byte (the writer takes another code path when it is given a file name)"""
    import os
    import tempfile
    evs = []
    fd1, p1 = tempfile.mkstemp(suffix=".yaml", prefix="c04-")
    fd2, p2 = tempfile.mkstemp(suffix=".yaml", prefix="c04-")
    os.close(fd1); os.close(fd2)
    try:
        try:
            n1.write_yaml(p1)
            b1 = open(p1, "rb").read()
        except Exception as e:
            return [{"op": "freload", "acc": 0, "exc": f"write_yaml(path): {type(e).__name__}: {str(e)[:100]}"}]
        ev, n3 = load_event("freload", p1, emb)
        ev["text"] = b1.decode("utf-8", "replace")
        evs.append(ev)
        if n3 is not None:
            try:
                n3.write_yaml(p2)
                b2 = open(p2, "rb").read()
                evs.append({"op": "fresave", "ok": 1, "yd": digest(b2.decode("utf-8", "replace")), "yd1": digest(b1.decode("utf-8", "replace")),
                            "text": b2.decode("utf-8", "replace")})
            except Exception as e:
                evs.append({"op": "fresave", "ok": 0, "yd": "", "yd1": "", "exc": f"{type(e).__name__}"})
    finally:
        for p in (p1, p2):
            try:
                os.remove(p)
            except OSError:
                pass
    return evs


# ------------------------------------------------------------------------------------------------ random documents
_REGIONS = [GROUND, "dsp", "bram", "lut", "yes", "Off", "n"]
_WEIGHTS = [[], [], [1, 1], [2, 1], [3, 1], [5, 1], [1, 2], [5, 2], [3, 4]]


# legal identifiers that some YAML flavour reads as something else when written plain (booleans of YAML 1.1, null, numbers)
_SENSITIVE = ["y", "Y", "n", "N", "yes", "Yes", "NO", "on", "On", "OFF", "off", "null", "Null", "true", "False", "e1", "E", "S", "W", "nan", "inf"]


def _rand_name(rng: random.Random, used: set) -> str:
    if rng.random() < 0.15:
        nm = rng.choice(_SENSITIVE)
        if nm not in used:
            used.add(nm)
            return nm
    while True:
        nm = rng.choice(["M", "blk_", "_x", "Q", "core", "u", "IO_"]) + str(rng.randrange(100))
        if rng.random() < 0.2:
            nm = rng.choice("ABCDEFGHKLPRSTUVWXabcdefghkprstuvwx_") + rng.choice(["", "_", "9", "z"])
        if nm not in used and nm not in BAD_NAMES and nm != UNKNOWN and nm not in _RESERVED and _IDENT.fullmatch(nm):
            used.add(nm)
            return nm


def _rand_rect(rng, lo=0, hi=56, smax=12):
    x1, y1 = rng.randint(lo, hi - 1), rng.randint(lo, hi - 1)
    return [x1, y1, min(hi + 4, x1 + rng.randint(1, smax)), min(hi + 4, y1 + rng.randint(1, smax))]


def _overlap(a, b) -> bool:
    return min(a[2], b[2]) > max(a[0], b[0]) and min(a[3], b[3]) > max(a[1], b[1])


def _rand_twins(rng) -> list:
    """two rectangles of exactly equal area, each a valid trunk of the other (side by side or stacked), random order"""
    x1, y1, w, h = rng.randint(2, 30), rng.randint(2, 30), rng.randint(1, 10), rng.randint(1, 10)
    a = [x1, y1, x1 + w, y1 + h]
    b = [x1 + w, y1, x1 + 2 * w, y1 + h] if rng.random() < 0.5 else [x1, y1 + h, x1 + w, y1 + 2 * h]
    rs = [a, b]
    rng.shuffle(rs)
    return rs


def _rand_stog(rng) -> list:
    """a trunk with 0..3 branches on distinct sides (never overlapping), in random order"""
    if rng.random() < 0.15:
        return _rand_twins(rng)
    x1, y1 = rng.randint(14, 30), rng.randint(14, 30)
    w, h = rng.randint(2, 12), rng.randint(2, 12)
    t = [x1, y1, x1 + w, y1 + h]
    rs = [t]
    for side in rng.sample("NSEW", rng.randint(0, 3)):
        if side in "NS":
            a = rng.randint(0, w - 1); b = rng.randint(a + 1, w); d = rng.randint(1, 10)
            rs.append([x1 + a, y1 + h, x1 + b, y1 + h + d] if side == "N" else [x1 + a, y1 - d, x1 + b, y1])
        else:
            a = rng.randint(0, h - 1); b = rng.randint(a + 1, h); d = rng.randint(1, 10)
            rs.append([x1 + w, y1 + a, x1 + w + d, y1 + b] if side == "E" else [x1 - d, y1 + a, x1, y1 + b])
    rng.shuffle(rs)
    return rs


def _rand_disjoint(rng, k) -> list:
    rs: list = []
    tries = 0
    while len(rs) < k and tries < 200:
        tries += 1
        r = _rand_rect(rng)
        if not any(_overlap(r, q) for q in rs):
            rs.append(r)
    return rs


def random_doc(rng: random.Random, terminal_rects: bool = True) -> dict:
    """a well-formed document larger than the enumerated universe (3..6 modules, up to 4 rectangles, up to 5 nets of
    arity up to 5); strictly inside the modelled language and the arithmetic bounds of Fpef.tla"""
    used: set = set()
    mods = []
    for _ in range(rng.randint(3, 6)):
        kind = rng.choice(["soft"] * 4 + ["hard", "hard", "flip", "fixed", "fixed", "terminal", "fixedTerminal"])
        md = {"name": _rand_name(rng, used), "area": {"form": "none", "ent": []}, "center": [],
              "aspect": {"form": "none", "v": []}, "flags": {k: -1 for k in FLAG_KEYS},
              "rects": {"form": "none", "rs": []}, "extra": []}
        if kind == "soft":
            if rng.random() < 0.4:
                md["area"] = {"form": "s", "ent": [[GROUND, rng.randint(1, 60)]]}
            else:
                regs = rng.sample(_REGIONS, rng.randint(1, 3))
                md["area"] = {"form": "d", "ent": [[r, rng.randint(1, 40)] for r in regs]}
            if rng.random() < 0.6:
                md["center"] = [rng.randint(0, 60), 1, rng.randint(0, 60), 1]
            z = rng.random()
            if z < 0.25:
                md["aspect"] = {"form": "s", "v": rng.choice([[2, 1], [3, 1], [1, 2], [1, 4], [1, 1], [3, 2]])}
            elif z < 0.5:
                md["aspect"] = {"form": "p", "v": rng.choice([[1, 2, 2, 1], [0, 1, 1, 1], [1, 4, 3, 1], [1, 1, 5, 2], [1, 3, 3, 2]])}
            k = rng.choice([0, 0, 1, 2, 3, 4])
            if k:
                rs = _rand_stog(rng) if rng.random() < 0.4 else [_rand_rect(rng) for _ in range(k)]
                md["rects"] = {"form": "flat" if len(rs) == 1 and rng.random() < 0.5 else "list",
                               "rs": [r + [rng.choice(_REGIONS)] for r in rs]}
            if rng.random() < 0.1:
                md["flags"][rng.choice(["fixed", "hard"])] = 0
        elif kind in ("hard", "flip", "fixed"):
            if kind == "flip" or rng.random() < 0.6:
                rs = _rand_stog(rng)
            else:
                rs = _rand_disjoint(rng, rng.randint(1, 3))
            md["rects"] = {"form": "flat" if len(rs) == 1 and rng.random() < 0.3 else "list", "rs": [r + [GROUND] for r in rs]}
            if kind == "fixed":
                md["flags"]["fixed"] = 1
            else:
                md["flags"]["hard"] = 1
                if kind == "flip":
                    md["flags"]["flip"] = 1
        else:
            md["flags"]["terminal"] = 1
            if kind == "fixedTerminal":
                md["flags"]["fixed"] = 1
            if kind == "fixedTerminal" or rng.random() < 0.7:
                md["center"] = [rng.randint(0, 60), 1, rng.randint(0, 60), 1]
            if terminal_rects and rng.random() < 0.3:          # a terminal with rectangles (a pad with a shape): centre and area come from them
                rs = _rand_disjoint(rng, rng.randint(1, 2))
                md["rects"] = {"form": "flat" if len(rs) == 1 and rng.random() < 0.5 else "list", "rs": [r + [GROUND] for r in rs]}
        mods.append(md)
    nets = []
    names = [m["name"] for m in mods]
    for _ in range(rng.randint(0, 5)):
        k = rng.randint(2, min(5, len(names)))
        pins = rng.sample(names, k)
        z = rng.random()
        if z < 0.08:                       # every pin the same module (the reader takes [B, B])
            pins = [pins[0]] * rng.randint(2, 3)
        elif z < 0.16:                     # one module listed twice among others
            pins.insert(rng.randint(0, len(pins)), rng.choice(pins))
        nets.append({"pins": pins, "w": list(rng.choice(_WEIGHTS))})
    return {"mods": mods, "nets": nets, "extra": []}


# ------------------------------------------------------------------------------------------------ helpers for deciding
def doc_features(doc: dict) -> dict:
    soft_map = any(m["flags"]["terminal"] == -1 and m["flags"]["hard"] != 1 and m["flags"]["fixed"] != 1 and
                   not (m["area"]["form"] == "s" or (len(m["area"]["ent"]) == 1 and m["area"]["ent"][0][0] == GROUND))
                   for m in doc["mods"])
    return {"region_map": soft_map, "flip": any(m["flags"]["flip"] == 1 for m in doc["mods"]),
            "modules": len(doc["mods"]), "nets": len(doc["nets"])}


def loss_pattern(clause: str, o1: dict, o2: dict) -> str:
    """a label for HOW a round-trip clause failed (a feature for known-finding matching only, never a verdict)"""
    if len(o1["mods"]) != len(o2["mods"]):
        return "other"
    pairs = list(zip(o1["mods"], o2["mods"]))
    if clause == "areas":
        bad = [(a, b) for a, b in pairs if sorted(map(tuple, a["areas"])) != sorted(map(tuple, b["areas"]))]
        if bad and all(b["areas"] == [[GROUND, sum(x[1] for x in a["areas"])]] and
                       not (len(a["areas"]) == 1 and a["areas"][0][0] == GROUND) for a, b in bad):
            return "region_map_collapsed_to_sum"
    if clause == "kind":
        bad = [(a, b) for a, b in pairs if a["kind"] != b["kind"]]
        if bad and all(a["kind"] == [1, 0, 0, 1] and b["kind"] == [1, 0, 0, 0] for a, b in bad):
            return "flip_lost"
    return "other"


def text_pattern(y1: str, y2: str) -> str:
    """how two written texts differ: only in the last bits of floating-point literals, or otherwise"""
    l1, l2 = y1.splitlines(), y2.splitlines()
    if not y1 or not y2 or len(l1) != len(l2):
        return "other"
    diff = [(a, b) for a, b in zip(l1, l2) if a != b]
    try:
        for a, b in diff:
            pa, pb = a.strip().lstrip("- ").strip(), b.strip().lstrip("- ").strip()
            va, vb = float(pa), float(pb)
            if abs(va - vb) > 1e-12 * max(abs(va), abs(vb), 1e-300):
                return "other"
    except ValueError:
        return "other"
    return "float_last_bits" if diff else "other"


def nontrivial_doc(doc: dict) -> bool:
    return bool(doc["nets"]) or any(m["rects"]["rs"] or m["area"]["form"] == "d" or m["center"] for m in doc["mods"])


def embeddings_for(i: int, doc: dict, tier: str) -> list[str]:
    """all embeddings, except that in the quick tier two-module documents of the wide universe get a rotating
    exact / inexact / offset triple (every module variant also occurs alone, under all eight)"""
    if tier == "thorough" or len(doc["mods"]) != 2:
        return list(ALL)
    return [["int", "flt", "half", "big"][i % 4], ["dec", "third", "tiny"][i % 3], "off"]


def with_extras(i: int, case: dict) -> dict:
    """the two further dimensions of the round trip, each for a share of the documents:
    * FILES -- documents with several modules (whose listing order is not the sorted order of their names) also go
      through write_yaml(path) / Netlist(path) / write_yaml(path2), under one of their embeddings in rotation;
    * HUGE INTEGERS -- every third document with rectangles is also run under the integer embedding with a step beyond
      2^53, where the rectangle numbers must be echoed exactly"""
    doc = case["doc"]
    if len(doc["mods"]) >= 2:
        case["file_emb"] = case["embs"][i % len(case["embs"])]
    if i % 3 == 0 and any(m["rects"]["rs"] for m in doc["mods"]):
        case["embs"] = case["embs"] + ["huge"]
    return case


def strip_private(ev: dict) -> dict:
    return {k: v for k, v in ev.items() if k not in ("text", "exc", "off")}


def decide(ctx: Ctx, cases: list[dict]):
    prepare_imports()
    import frame.netlist.netlist  # noqa: F401  (imported in the parent, used only in children)
    results = run_cases(run_case, cases, nproc=16)
    traces, owners, texts = {}, {}, {}
    for c, (st, val) in zip(cases, results):
        if st != "ok":
            ctx.violation("no_result", {"doc": c["doc"], "embeddings": c["embs"]}, {"status": st}, doc_features(c["doc"]))
            continue
        for en, evs in val.items():
            ctx.count(n=len(evs))
            bad = [e for e in evs if "off" in e]
            if bad:
                ctx.violation("off_lattice", {"doc": c["doc"], "embeddings": [en]}, {"event": bad[0]["op"], "what": bad[0]["off"]},
                              {**doc_features(c["doc"]), "embedding": en})
                continue
            t = {"doc": c["doc"], "events": [strip_private(e) for e in evs]}
            # the text digests differ between embeddings; observations that agree on everything else, including on
            # whether the two texts are identical, are one trace (TLC compares the digests of its representative)
            key = digest({"doc": c["doc"], "events": [
                {**{k: v for k, v in e.items() if k not in ("yd", "yd1")}, "same": int(e.get("yd") == e.get("yd1"))}
                if e["op"] in ("resave", "fresave") else {k: v for k, v in e.items() if k != "yd"} for e in t["events"]]})
            if key not in traces:
                t["id"] = key
                traces[key] = t
                owners[key] = []
                texts[key] = {e["op"]: e.get("exc") or e.get("text", "") for e in evs}
                texts[key]["first_emb"] = en
            owners[key].append(en)
    verdicts = tlc.validate_traces(ctx, "FpefTrace", "FpefTrace", list(traces.values()), chunk=3000)
    for key in sorted(verdicts):        # TLC reports in scheduling order; report in a fixed one
        v = verdicts[key]
        t = traces[key]
        ctx.count(key, nontrivial=nontrivial_doc(t["doc"]), n=0)
        feats = doc_features(t["doc"])
        for (l, clause) in v["fails"]:
            ev = t["events"][l - 1]
            if ev["op"] == "load":
                # what the first load does with the source document is C05's subject; here it only delimits the
                # quantifier ("all netlists the reader accepts")
                ctx.model_drift(f"load: {clause} (judged by C05)")
                continue
            detail = {"event": ev["op"], "embeddings": owners[key]}
            pattern = "other"
            if ev["op"] == "resave":
                pattern = text_pattern(texts[key].get("save") or "", texts[key].get("resave") or "")
            if ev["op"] == "fresave":
                pattern = text_pattern(texts[key].get("freload") or "", texts[key].get("fresave") or "")
            if ev["op"] in ("reload", "freload") and ev.get("acc") == 1:
                o1, o2 = t["events"][0]["obs"], ev["obs"]
                pattern = loss_pattern(clause, o1, o2)
                detail["differs"] = [{"module": a["name"], "written": {k: a[k] for k in ("kind", "areas", "center", "aspect", "rects")},
                                      "read_back": {k: b[k] for k in ("kind", "areas", "center", "aspect", "rects")}}
                                     for a, b in zip(o1["mods"], o2["mods"]) if a != b][:3]
            detail["text"] = (texts[key].get("freload" if ev["op"].startswith("f") else "save") or "")[:600]
            ctx.violation(clause, {"doc": t["doc"], "embeddings": owners[key]}, detail,
                          {**feats, "event": ev["op"], "embedding": owners[key][0], "pattern": pattern})
        for (l, what) in v["drift"]:
            if what == "terminal_with_rectangles_not_judged_by_C05":
                continue        # expected here: such documents are C04's (round trip) and outside C05's universe
            ctx.model_drift(f"{t['events'][l - 1]['op']}: {what}")
    for t in [traces[k] for k in sorted(traces)[:3]]:
        ctx.sample({"trace": {k: t[k] for k in ("doc", "events")}, "embeddings": owners[t["id"]]})
    return traces


def generated_docs(ctx: Ctx, cfg: str) -> list[dict]:
    """the documents TLC prints, in a canonical order (TLC's workers print in scheduling order; everything that
    depends on a document's index -- sampling, embedding rotation -- must not)"""
    return sorted((fix_json(r) for r in tlc.generate(ctx, "Fpef", cfg)), key=canon)


def run(ctx: Ctx) -> int:
    if ctx.replay:
        rec = json.load(open(ctx.replay))
        c = rec["case"]
        embs = c.get("embeddings") or list(ALL)
        decide(ctx, [{"doc": c["doc"], "embs": embs, "file_emb": embs[0]}])
        return ctx.finish("model_checking", "replay of one recorded document")
    tier = ctx.tier
    tlc.model_check(ctx, "Fpef", f"Fpef_c04_mc_{tier}", vacuity_ignore=("Emit", "Defect"))
    gen = generated_docs(ctx, f"Fpef_gen_{tier}")
    rng = random.Random(ctx.seed * 1000003 + 4)
    budget = 2800 if tier == "quick" else 20000
    docs = [g["doc"] for g in gen]
    if len(docs) > budget:     # the model check covers all; replay a seeded sample (all one-module documents kept)
        single = [d for d in docs if len(d["mods"]) == 1]
        rest = [d for d in docs if len(d["mods"]) != 1]
        docs = single + rng.sample(rest, budget - len(single))
    cases = [with_extras(i, {"doc": d, "embs": embeddings_for(i, d, tier)}) for i, d in enumerate(docs)]
    nrand = 250 if tier == "quick" else 3000
    rdocs = [random_doc(rng) for _ in range(nrand)]
    cases += [with_extras(i, {"doc": d, "embs": list(ALL), "text": i % 4 == 0}) for i, d in enumerate(rdocs)]
    decide(ctx, cases)
    ctx.extra["embeddings"] = ALL
    ctx.extra["documents_from_tlc"] = len(gen)
    ctx.extra["documents_replayed"] = len(docs)
    ctx.extra["random_documents"] = nrand
    ctx.assumptions += [
        "float dimension sampled by 8 embeddings of the integer lattice (steps 1, 1.0, 1/2, 1/10, 1/3, 1e3, 1e-3, 0.1+37.3), not enumerated",
        "identifier validity is modelled by a fixed list of invalid spellings; all other names used match [A-Za-z_][A-Za-z0-9_]*",
        "rectangle centres are non-negative (the reader refuses negative numbers)",
        "rectangles of a module and the members of a net are compared as multisets, nets as a multiset of nets (the "
        "statement orders only the modules); list order is model conformance",
        "documents with several modules also make the round trip through files (write_yaml(path), Netlist(path), write_yaml(path2), "
        "byte comparison); every third document with rectangles also runs under an integer embedding with step 2^54+2, where "
        "rectangle numbers are pulled back exactly (no tolerance)",
        "the round trip starts from Netlist(doc) for a generated document doc (tree form; one random document in four as "
        "YAML text) and reads back the text write_yaml() returns, tolerance registers reset before every load",
    ]
    return ctx.finish(
        "model_checking",
        "TLC enumerates every document of the bounded universe (<= 2 modules of every kind/attribute combination, <= 4 "
        "modules of centre carriers, nets of arity 2..4) and checks Read(Write(n)) = n, Write(Read(Write(n))) = Write(n) on "
        "the model; each replayed (document, embedding) is 4 evaluations (load, save, reload, resave); distinct = distinct "
        "pulled-back observation traces judged by TLC; non-trivial = the document has a net, a rectangle, a region map or "
        "a centre",
        exhaustive=False)
