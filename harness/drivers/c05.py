"""C05 -- Loaded netlist matches its definition; ill-formed designs are rejected.

TLC (Fpef, DEFECTS = TRUE) enumerates every well-formed document of a bounded universe, checks on the model that the
loaded netlist carries the defined areas / centroids / rectangle lists / wire-length bracket, that the declarative
WellFormed and the assertion-by-assertion Read agree, and that EVERY single injection of every listed defect class
(Fpef!Inject: unknown module in a net, non-positive weight or area, soft without area, hard with area / without
rectangles / with overlapping rectangles, unknown attribute, invalid name, one-pin net, non-positive rectangle size,
at every position) yields an ill-formed document that Read refuses.  The same specification emits every document
of the universe (Fpef_gen_*), and FpefTrace!InjectSpec prints Inject(doc) for each document that is replayed.

Each document is rendered as FPEF text under the float embeddings and loaded with frame.netlist.Netlist; the netlist
is observed through modules / edges / rectangles / fixed_rectangles() / wire_length, pulled back to the lattice, and
TLC (FpefTrace) judges the clauses of the statement (area, centre, rectangles, fixed_rectangles, wire_length within
the integer-square-root bracket).  Each injected document must raise; TLC (FpefTrace!StepDefect) re-derives that the
patched document is ill-formed and judges the verdict.  A seeded random driver adds larger documents whose injections
come from the same Inject definition (FpefTrace!InjectSpec).
"""
from __future__ import annotations

import json
import os
import random

from ..core import Ctx, MachineryError, digest
from ..forkpool import prepare_imports, run_cases
from ..lattice import ALL, EMBEDDINGS
from .. import tlc
from .c04 import (apply_patch, doc_features, embeddings_for, fix_json, generated_docs, load, load_event, random_doc,
                  strip_private, to_text, to_tree)

CLASSES = ["unknown_module", "bad_weight", "bad_area", "soft_no_area", "hard_with_area", "hard_no_rects",
           "hard_overlap", "unknown_attr", "invalid_name", "one_pin", "bad_rect_size"]
DERIVED = {"shape", "area", "centre", "rectangles", "fixed_rectangles", "wire_length"}


def run_case(case: dict) -> dict:
    """-> {embedding: [events]}: load of the source text, then one load per injected defect"""
    out = {}
    doc = case["doc"]
    for en in case["embs"]:
        emb = EMBEDDINGS[en]
        ev, _ = load_event("load", to_text(to_tree(doc, emb)), emb)
        evs = [ev]
        for j, p in enumerate(case["patches"] if en in case.get("defect_embs", case["embs"]) else []):
            tree = to_tree(apply_patch(doc, p), emb)
            # the reader takes a text or an already parsed tree; one defect in 25 goes through the YAML parser (it dominates the run time)
            # one defect in 6 is the SECOND design of its process: the well-formed source is loaded again first and the
            # tolerance registers it derived (same embedding, same scale) are left in place for the injected document
            second = (j + case.get("salt", 0)) % 6 == 3
            if second:
                load(to_tree(doc, emb), emb)
            st, v = load(to_text(tree) if (j + case.get("salt", 0)) % 25 == 0 else tree, emb, keep_tolerance=second)
            e = {"op": "defect", "patch": p, "acc": int(st == "ok")}
            if st != "ok":
                e["exc"] = v
            evs.append(e)
        out[en] = evs
    return out


def defect_embeddings_for(i: int, doc: dict, tier: str) -> list[str]:
    """embeddings under which the injected documents are loaded: all of them, except that in the quick tier
    documents with several modules get a rotating pair out of exact / inexact / offset (every module variant also
    occurs alone, with all its injections under all eight)"""
    if tier == "thorough" or len(doc["mods"]) == 1:
        return list(ALL)
    # two of: an exact step, an inexact step, the offset embedding -- rotating with the document's index
    trio = [["int", "flt", "half", "big"][i % 4], ["dec", "third", "tiny"][i % 3], "off"]
    return [trio[i % 3], trio[(i + 1) % 3]]


def nontrivial(doc: dict) -> bool:
    return bool(doc["nets"]) or any(m["rects"]["rs"] for m in doc["mods"])


def decide(ctx: Ctx, cases: list[dict]):
    prepare_imports()
    import frame.netlist.netlist  # noqa: F401  (imported in the parent, used only in children)
    results = run_cases(run_case, cases, nproc=16)
    traces, owners, excs = {}, {}, {}
    exc_types: dict[str, int] = {}
    for c, (st, val) in zip(cases, results):
        if st != "ok":
            ctx.violation("no_result", {"doc": c["doc"], "embeddings": c["embs"]}, {"status": st}, doc_features(c["doc"]))
            continue
        for en, evs in val.items():
            ctx.count(n=len(evs))
            if "off" in evs[0]:
                ctx.violation("off_lattice", {"doc": c["doc"], "embeddings": [en]}, {"what": evs[0]["off"]},
                              {**doc_features(c["doc"]), "embedding": en})
                continue
            for e in evs:
                if "exc" in e:
                    k = e["exc"].split(":")[0]
                    exc_types[k] = exc_types.get(k, 0) + 1
            t = {"doc": c["doc"], "events": [strip_private(e) for e in evs]}
            key = digest(t)
            if key not in traces:
                t["id"] = key
                traces[key] = t
                owners[key] = []
                excs[key] = [e.get("exc", "") for e in evs]
            owners[key].append(en)
    verdicts = tlc.validate_traces(ctx, "FpefTrace", "FpefTrace", list(traces.values()), chunk=4000)
    for key in sorted(verdicts):        # TLC reports in scheduling order; report in a fixed one
        v = verdicts[key]
        t = traces[key]
        ctx.count(key, nontrivial=nontrivial(t["doc"]) or len(t["events"]) > 1, n=0)
        for (l, clause) in v["fails"]:
            ev = t["events"][l - 1]
            if ev["op"] == "defect":
                p = ev["patch"]
                ctx.violation(clause, {"doc": t["doc"], "patch": p, "embeddings": owners[key]},
                              {"accepted": "the ill-formed document was loaded", "class": p["cls"], "variant": p["variant"],
                               "target": p["at"], "index": p["i"], "value": p["val"], "embeddings": owners[key]},
                              {"class": p["cls"], "variant": p["variant"], "at": p["at"], "embedding": owners[key][0]})
            else:
                detail = {"embeddings": owners[key], "exception": excs[key][0]}
                if ev.get("acc") == 1:
                    o = ev["obs"]
                    detail["observed"] = {"total": [m["total"] for m in o["mods"]], "center": [m["center"] for m in o["mods"]],
                                          "allrects": o["allrects"], "fixedrects": o["fixedrects"], "wl": o["wl"],
                                          "net_wl": [e["wl"] for e in o["nets"]]}
                ctx.violation(clause, {"doc": t["doc"], "embeddings": owners[key]}, detail,
                              {**doc_features(t["doc"]), "embedding": owners[key][0]})
        for (l, what) in v["drift"]:
            ctx.model_drift(f"{t['events'][l - 1]['op']}: {what}")
    for t in [traces[k] for k in sorted(traces)[:3]]:
        ctx.sample({"trace": {"doc": t["doc"], "events": t["events"][:4]}, "embeddings": owners[t["id"]]})
    ctx.extra["exception_types_of_rejections"] = exc_types
    return traces


def inject_with_tlc(ctx: Ctx, docs: list[dict], chunk: int = 6000) -> list[list[dict]]:
    """Fpef!Inject printed by TLC for each document (FpefTrace!InjectSpec); also checks that TLC finds each document
    inside the modelled language, well-formed and accepted by the model's reader (the quantifier)"""
    if len(docs) > chunk:
        out: list = []
        for i in range(0, len(docs), chunk):
            out += inject_with_tlc(ctx, docs[i:i + chunk], chunk)
        return out
    batch = [{"id": str(i), "doc": d, "events": []} for i, d in enumerate(docs)]
    f = ctx.path(f"inject-{os.getpid()}.json")
    with open(f, "w") as fh:
        json.dump(batch, fh, separators=(",", ":"))
    res = tlc.run_tlc(ctx, "FpefTrace", "FpefTrace_inject", env={"TRACE_FILE": f}, tag="inject")
    ctx.states += res["distinct"]
    ctx.transitions += res["generated"]
    got = {r["id"]: fix_json(r) for r in res["printed"] if isinstance(r, dict) and r.get("tag") == "PATCHES"}
    out = []
    for i, d in enumerate(docs):
        r = got.get(str(i))
        if r is None:
            raise MachineryError("no injection record for a random document")
        if not (r["lang"] == 1 and r["wf"] == 1 and r["ok"] == 1):
            raise MachineryError(f"random generator left the quantifier (lang/wf/ok = {r['lang']}/{r['wf']}/{r['ok']}): {json.dumps(d)[:300]}")
        out.append(r["patches"])
    os.remove(f)
    return out


def run(ctx: Ctx) -> int:
    if ctx.replay:
        rec = json.load(open(ctx.replay))
        c = rec["case"]
        decide(ctx, [{"doc": c["doc"], "embs": c.get("embeddings") or list(ALL), "patches": [c["patch"]] if "patch" in c else []}])
        return ctx.finish("model_checking", "replay of one recorded document (and defect)")
    tier = ctx.tier
    tlc.model_check(ctx, "Fpef", f"Fpef_c05_mc_{tier}", vacuity_ignore=("Emit", "Save", "Reload", "Resave"))
    # the generation cfg is shared with C04; documents in which a terminal has rectangles (c05 = 0) belong to C04 only:
    # for C05 a terminal is a point ("zero for terminals"), so they are neither generated as well-formed nor judged here
    allgen = generated_docs(ctx, f"Fpef_gen_{tier}")
    gen = [g for g in allgen if g.get("c05", 1) == 1]
    ctx.extra["documents_skipped_terminal_with_rectangles"] = len(allgen) - len(gen)
    rng = random.Random(ctx.seed * 1000003 + 5)
    budget = 1500 if tier == "quick" else 12000
    if len(gen) > budget:     # the model check covers all; replay a seeded sample (all one-module documents kept)
        single = [g for g in gen if len(g["doc"]["mods"]) == 1]
        rest = [g for g in gen if len(g["doc"]["mods"]) != 1]
        picked = single + rng.sample(rest, budget - len(single))
    else:
        picked = gen
    nrand = 100 if tier == "quick" else 1500
    rdocs = [random_doc(rng, terminal_rects=False) for _ in range(nrand)]
    # every injection comes from the one definition Fpef!Inject, printed by TLC for the chosen documents
    patches = inject_with_tlc(ctx, [g["doc"] for g in picked] + rdocs)
    cases = [{"doc": g["doc"], "patches": patches[i], "embs": embeddings_for(i, g["doc"], tier),
              "defect_embs": defect_embeddings_for(i, g["doc"], tier), "salt": i}
             for i, g in enumerate(picked)]
    cases += [{"doc": d, "patches": patches[len(picked) + i], "embs": list(ALL), "salt": i} for i, d in enumerate(rdocs)]
    per_class = {k: 0 for k in CLASSES}
    for c in cases:
        for p in c["patches"]:
            per_class[p["cls"]] = per_class.get(p["cls"], 0) + 1
    if any(v == 0 for v in per_class.values()) or set(per_class) != set(CLASSES):
        raise MachineryError(f"vacuous defect class: {per_class}")
    decide(ctx, cases)
    ctx.extra["embeddings"] = ALL
    ctx.extra["documents_from_tlc"] = len(gen)
    ctx.extra["documents_replayed"] = len(picked)
    ctx.extra["random_documents"] = nrand
    ctx.extra["injections_per_class"] = per_class
    ctx.assumptions += [
        "float dimension sampled by 8 embeddings of the integer lattice (steps 1, 1.0, 1/2, 1/10, 1/3, 1e3, 1e-3, 0.1+37.3), not enumerated",
        "identifier validity is modelled by a fixed list of invalid spellings (\"3x\", \"a-b\", \"x y\", \"\", a trailing or embedded line feed, a trailing space or tab; for regions also \"dsp\\n\", \"r \"); all other names match [A-Za-z_][A-Za-z0-9_]*",
        "well-formed documents have non-negative rectangle centres (the reader refuses negative numbers), flippable modules that are "
        "single-trunk orthogons, hard rectangles without region, terminals without rectangles (a terminal is a point: the statement gives every terminal area zero; documents in which a terminal has rectangles are accepted by the reader and belong to C04's round trip only -- C05 neither generates nor judges them): the format rules that delimit the quantifier",
        "wire length is judged against an interval (integer square roots at resolution 1/128 lattice unit, about 0.03 units per pin), "
        "observed value rounded to 0.01 unit; a net with a centre-less member has no defined length and is not judged",
        "rectangle lists are compared as multisets; a well-formed document that is refused is reported (clause `loads`): the statement "
        "presupposes that well-formed documents load",
        "any exception raised by Netlist(...) counts as rejection; the types seen are recorded in the evidence",
    ]
    return ctx.finish(
        "model_checking",
        "TLC enumerates every well-formed document of the bounded universe and every single-defect injection of it (11 classes x "
        "positions x variants), checks acceptance = well-formedness and the derived-quantity invariants on the model; each replayed "
        "(document, embedding) is 1 + #injections evaluations; distinct = distinct pulled-back observation traces judged by TLC; "
        "non-trivial = the trace has rectangles, nets or at least one injected defect",
        exhaustive=False)
