"""UTILS -- frame/utils/utils.py + keywords.py: identifiers, numbers, almost_eq, read_yaml / write_yaml.

TLC (Utils.tla) enumerates every string over an alphabet of character-class symbols up to a length, runs three
recognisers (identifier, float() literal, read_yaml's ': ' rule) one action per character, checks that each machine
equals an independent declarative grammar and the lemmas (which strings are identifier AND number; a text with ': '
is never a file name ...), and prints the strings and the abstract YAML trees.  The driver turns every abstract
string into concrete text under two choices of representatives per symbol (the "embedding" of this check), calls the
real functions, and TLC (UtilsTrace.tla) judges every answer.  Beyond the enumeration: curated and random longer
strings (abstracted back to symbols), values that are not strings, almost_eq on a lattice under exact scalings, YAML
trees through write_yaml/read_yaml, file handles, and module names through Netlist(text) -- keywords included.
"""
from __future__ import annotations

import json
import os
import random

from ..core import Ctx, MachineryError, digest
from ..forkpool import prepare_imports, run_cases
from .. import tlc

# ---------------------------------------------------------------- symbols <-> characters
REP = {
    "A": {"x": "k", "X": "Q", "7": "7", "udig": "\u0663", "tab": "\t", "uni": "\u00e9", "q": '"', "br": "{"},
    "B": {"x": "z", "X": "B", "7": "3", "udig": "\uff15", "tab": "\x0c", "uni": "\u03bb", "q": "'", "br": "#"},
}
SAME = {c: c for c in "anifty" "e" "ANIFTYE" "0_.+-:"}
SAME["sp"] = " "
SAME["nl"] = "\n"
PLAIN_SAFE = set("anifty" "e" "ANIFTYE" "xX07_.+-") | {"uni", "udig"}
KINDS = ["int", "negint", "float", "inf", "nan", "bool", "str", "numstr", "none", "list", "tuple", "complex", "decimal",
         "fraction", "np_float64", "np_int32", "np_bool", "np_array0d", "np_array1"]


def concrete(sym: list[str], rep: str) -> str:
    return "".join(SAME[c] if c in SAME else REP[rep][c] for c in sym)


def abstract(text: str) -> list[str]:
    out = []
    for ch in text:
        if ch in "anifty" "e" "ANIFTYE" "_.+-:":
            out.append(ch)
        elif ch == "0":
            out.append("0")
        elif ch in "123456789":
            out.append("7")
        elif "a" <= ch <= "z":
            out.append("x")
        elif "A" <= ch <= "Z":
            out.append("X")
        elif ch == " ":
            out.append("sp")
        elif ch == "\n":
            out.append("nl")
        elif ch.isspace():
            out.append("tab")
        elif ch.isdecimal():
            out.append("udig")
        elif ch in "\"'":
            out.append("q")
        elif ch.isalpha():
            out.append("uni")
        else:
            out.append("br")
    return out


# ---------------------------------------------------------------- real code (children only)
_DIR = None


def _workdir():
    """Every worker process works in its own empty scratch directory (read_yaml opens relative file names)."""
    global _DIR
    import os
    import tempfile
    if _DIR is None or _DIR[0] != os.getpid():
        d = tempfile.mkdtemp(prefix="utils-")
        os.chdir(d)
        _DIR = (os.getpid(), d)
    return _DIR[1]


def _route(text: str, present: bool) -> str:
    import os
    from frame.utils.utils import read_yaml
    made = False
    if present:
        if text in ("", ".", "..") or "/" in text or "\0" in text or len(text.encode()) > 200:
            return "na"
        with open(text, "w") as f:
            f.write("marker: 42\n")
        made = True
    try:
        r = read_yaml(text)
        return "file" if made and r == {"marker": 42} else "text"
    except FileNotFoundError:
        return "nofile"
    except IsADirectoryError:
        return "isdir"
    except OSError as e:
        return "oserror:" + type(e).__name__
    except Exception:
        # the marker file always parses: any other exception comes from parsing the string itself as YAML
        # (ruamel's scanner/parser errors, or a ValueError of its number constructor for texts like "-_: ")
        return "text"
    finally:
        if made:
            os.remove(text)


def _b(f, *a):
    """0/1 answer of a predicate under test; 2 = it raised (every input here is inside its documented domain)."""
    try:
        return int(bool(f(*a)))
    except Exception:
        return 2


def _str_event(sym, text):
    from frame.utils.utils import valid_identifier, string_is_number
    try:
        float(text)
        flt = 1
    except ValueError:
        flt = 0
    return {"k": "str", "s": sym, "ident": _b(valid_identifier, text), "isnum": _b(string_is_number, text),
            "flt": flt, "route0": _route(text, False), "route1": _route(text, True)}


def _value(kind):
    import decimal
    import fractions
    import numpy as np
    return {"int": 3, "negint": -5, "float": 38.6, "inf": float("inf"), "nan": float("nan"), "bool": True, "str": "hello",
            "numstr": "38", "none": None, "list": [1, 2, 3], "tuple": (2, 5), "complex": 1 + 2j,
            "decimal": decimal.Decimal("1.5"), "fraction": fractions.Fraction(1, 2), "np_float64": np.float64(1.5),
            "np_int32": np.int32(7), "np_bool": np.bool_(True), "np_array0d": np.array(1.0), "np_array1": np.array([1.0])}[kind]


def _tree_value(t, n=[0]):
    k = t["k"]
    if k == "num":
        n[0] += 1
        return 1.5 if n[0] % 2 else 3
    if k == "str":
        return "abc"
    if k == "bool":
        return True
    if k == "null":
        return None
    if k == "list":
        return [_tree_value(x) for x in t["items"]]
    return {f"k{i + 1}": _tree_value(x) for i, x in enumerate(t["items"])}


def _name_event(sym, text, quoted):
    from frame.netlist.netlist import Netlist
    key = json.dumps(text) if quoted else text
    doc = f"Modules:\n  {key}:\n    area: 1\n"
    try:
        n = Netlist(doc)
        acc = int(len(n.modules) == 1 and n.modules[0].name == text)
    except Exception:
        acc = 0
    return {"k": "name", "s": sym, "quoted": int(quoted), "accepted": acc}


def run_case(case):
    """-> list of events (see UtilsTrace.tla) for one work item."""
    import io
    import os
    from frame.utils.utils import valid_identifier, is_number, almost_eq, read_yaml, write_yaml
    _workdir()
    g = case["group"]
    out = []
    if g == "strings":
        for sym in case["items"]:
            out.append(_str_event(sym, concrete(sym, case["rep"])))
    elif g == "texts":
        for text in case["items"]:
            out.append(_str_event(abstract(text), text))
    elif g == "kinds":
        for kd in KINDS:
            v = _value(kd)
            out.append({"k": "kind", "kind": kd, "isnum": _b(is_number, v), "ident": _b(valid_identifier, v)})
    elif g == "aeq":
        u, base = case["unit"], case["base"]
        for (a, b, num, den, sa, sb, eps) in case["items"]:
            va = float(sa) if sa else base + a * u
            vb = float(sb) if sb else base + b * u
            if eps == "default":
                ab, ba = _b(almost_eq, va, vb), _b(almost_eq, vb, va)
            else:
                e = float("inf") if eps == "inf" else num * u / den
                ab, ba = _b(almost_eq, va, vb, e), _b(almost_eq, vb, va, e)
            out.append({"k": "aeq", "a": a, "b": b, "num": num, "den": den, "sa": sa, "sb": sb, "ab": ab, "ba": ba})
    elif g == "trees":
        for t in case["items"]:
            v = _tree_value(t)
            txt = write_yaml(v)
            ev = {"k": "tree", "t": t, "has_cs": int(isinstance(txt, str) and ": " in txt), "rt": "ok", "wfile": "ok"}
            if not isinstance(txt, str):
                ev["rt"] = "no_string_returned"
            else:
                try:
                    ev["rt"] = "ok" if read_yaml(txt) == v else "differs"
                except Exception as e:
                    ev["rt"] = type(e).__name__
            try:
                ret = write_yaml(v, "out.yaml")
                ev["wfile"] = "ok" if ret is None and read_yaml("out.yaml") == v else "differs"
                os.remove("out.yaml")
            except Exception as e:
                ev["wfile"] = type(e).__name__
            out.append(ev)
    elif g == "names":
        for item in case["items"]:
            sym, text = (item, concrete(item, case["rep"])) if isinstance(item, list) else (abstract(item), item)
            out.append(_name_event(sym, text, True))
            if text and all(c in PLAIN_SAFE for c in sym):
                out.append(_name_event(sym, text, False))
    elif g == "handles":
        with open("h.yaml", "w") as f:
            f.write("a: 1\nb: [1, 2]\n")
        for how in ("file", "stringio"):
            try:
                h = open("h.yaml") if how == "file" else io.StringIO("a: 1\nb: [1, 2]\n")
                ok = int(read_yaml(h) == {"a": 1, "b": [1, 2]})
                h.close()
            except Exception:
                ok = 0
            out.append({"k": "handle", "how": how, "ok": ok})
        tree = {"a": [1, 2]}
        out.append({"k": "handle", "how": "tree", "ok": int(read_yaml(tree) is tree)})
        os.remove("h.yaml")
    else:
        raise ValueError(g)
    return out


# ---------------------------------------------------------------- cases
CURATED = ["Modules", "Nets", "area", "center", "width", "height", "shape", "aspect_ratio", "terminal", "hard", "fixed", "flip",
           "rectangles", "region", "regions", "name", "_", "#",                      # every constant of keywords.py
           "nan", "NaN", "inf", "Inf", "INFINITY", "infinity", "-inf", "+nan", "infinit", "infinityy", "nano", "in", "i",
           "0000", "3", "5.6", "4e-5", "8E6", "-45.47", "hello", "", "123a", "1_000", "1__0", "_1", "1_", "1_.5", "1._5", "1e_5",
           " 12 ", "\t7\n", "1 2", "+-1", "--1", "1e", "1e+", ".e1", "1.e1", ".", "..", "...", "1.2.3", "0x10", "1e1.0", "1E5", "1d5",
           "\u0661\u0662", "\uff11.\uff15", "\u00b2", "\u00bd", "e", "E5", "e5", "_9", "A9_", "9A", "a b", "a.b", "a-b", "\u00e9", "a\u00e9",
           "a: b", "a:b", "a :b", ": ", ":", "a:\tb", "a:\nb", "x: [", "{a: 1}", "[1, 2]", "- 1", "true", "null", "yes", "~", "True", "None"]


def random_texts(rng, n):
    """Longer strings than TLC enumerates (5-12 characters), biased towards almost-numbers and almost-identifiers."""
    pools = ["0123456789", "0123456789._eE+-", "abcnNiIfFtTyY_019", " \t\n", "0123456789_", "\u0663\uff15\u00e9\u03bb#{\"':",
             "nanifNANIFtyTY", ": aA1"]
    out = []
    for _ in range(n):
        k = rng.randint(5, 12)
        pool = rng.choice(pools) + (rng.choice(pools) if rng.random() < 0.5 else "")
        s = "".join(rng.choice(pool) for _ in range(k))
        if rng.random() < 0.2:
            s = rng.choice([" ", "\n", "+", "-", ""]) + s + rng.choice([" ", "\t", ""])
        out.append(s)
    return out


def aeq_cases():
    cases = []
    lattice = [(a, b, e, 1, "", "", "") for a in range(-3, 4) for b in range(-3, 4) for e in range(-1, 5)]
    for name, u, base in [("one", 1.0, 0.0), ("quarter", 0.25, 0.0), ("tiny", 2.0 ** -30, 0.0), ("big", 2.0 ** 20, 0.0),
                          ("offset", 2.0 ** -10, 1000.0)]:
        cases.append({"group": "aeq", "emb": name, "unit": u, "base": base, "items": lattice})
    # inexact unit: only off the boundary |a-b| = eps (there the last bit decides)
    cases.append({"group": "aeq", "emb": "tenth", "unit": 0.1, "base": 0.0, "items": [x for x in lattice if abs(x[0] - x[1]) != x[2]]})
    # the default epsilon (10e-12) seen from a lattice of step 2^-38 around 1.0: 1e-11 = 2.748779.. steps
    cases.append({"group": "aeq", "emb": "default", "unit": 2.0 ** -38, "base": 1.0,
                  "items": [(a, b, 2748779, 1000000, "", "", "default") for a in range(0, 6) for b in range(0, 6)]})
    sp = ["inf", "-inf", "nan"]
    items = [(0, 0, 1, 1, x, y, e) for x in sp + [""] for y in sp + [""] if x or y for e in ("", "inf")]
    cases.append({"group": "aeq", "emb": "special", "unit": 1.0, "base": 0.0, "items": items})
    return cases


def feature_of(e):
    f = {"event": e["k"]}
    if e["k"] == "tree":
        f["has_colon_space"] = e["has_cs"]
        f["top"] = e["t"]["k"]
    if e["k"] == "handle":
        f["how"] = e["how"]
    if e["k"] == "kind":
        f["kind"] = e["kind"]
    if e["k"] == "name":
        f["quoted"] = e["quoted"]
    return f


def decide(ctx: Ctx, cases: list[dict]) -> int:
    prepare_imports()
    import frame.netlist.netlist  # noqa: F401
    results = run_cases(run_case, cases, nproc=16)
    traces, owners = {}, {}
    for c, (st, val) in zip(cases, results):
        if st != "ok":
            ctx.violation("no_result", {"case": {k: v for k, v in c.items() if k != "items"}}, {"status": st}, {"event": "no_result"})
            continue
        for i in range(0, len(val), 400):
            evs = val[i:i + 400]
            ctx.count(n=len(evs))
            t = {"events": evs}
            key = digest(t)
            if key not in traces:
                t["id"] = key
                traces[key] = t
                owners[key] = {"group": c["group"], "rep": c.get("rep", c.get("emb", "")), "unit": c.get("unit"), "base": c.get("base")}
    # UTILS_NEWLINE_TEXT=1 judges read_yaml by the rule of the proposed repair (see Utils.tla, NEWLINE_TEXT)
    cfg = "UtilsTrace_newline" if os.environ.get("UTILS_NEWLINE_TEXT") == "1" else "UtilsTrace"
    verdicts = tlc.validate_traces(ctx, "UtilsTrace", cfg, list(traces.values()), chunk=600)
    for key, v in verdicts.items():
        t, own = traces[key], owners[key]
        for j, e in enumerate(t["events"]):
            nt = e["k"] != "str" or e["ident"] or e["isnum"] or e["route0"] == "text"
            if nt:
                ctx.count(digest(e), nontrivial=True, n=0)
        for (l, clause) in v["fails"]:
            e = t["events"][l - 1]
            shown = dict(e)
            if "s" in e:
                shown["text_repA"] = concrete(e["s"], "A") if own["group"] in ("strings", "names") else None
            ctx.violation(clause, {"group": own["group"], "rep": own["rep"], "unit": own["unit"], "base": own["base"], "event": e},
                          shown, feature_of(e))
        for (l, what) in v["drift"]:
            e = t["events"][l - 1]
            extra = f" ({e['kind']})" if e["k"] == "kind" else ""
            ctx.model_drift(f"{what}{extra}: observed behaviour differs from what the model records as coded")
    for t in list(traces.values())[:2]:
        ctx.sample({"events": t["events"][:5]})
    return len(traces)


def replay_case(rec) -> dict:
    c, e = rec["case"], rec["case"]["event"]
    g = c["group"]
    if g in ("strings", "texts"):
        return {"group": "strings", "rep": c["rep"] or "A", "items": [e["s"]]}
    if g == "names":
        return {"group": "names", "rep": c["rep"] or "A", "items": [e["s"]]}
    if g == "aeq":
        eps = "default" if c["rep"] == "default" else ("inf" if False else "")
        return {"group": "aeq", "emb": c["rep"], "unit": c["unit"], "base": c["base"],
                "items": [(e["a"], e["b"], e["num"], e["den"], e["sa"], e["sb"], eps)]}
    if g == "trees":
        return {"group": "trees", "items": [e["t"]]}
    return {"group": g}


def run(ctx: Ctx) -> int:
    if ctx.replay:
        decide(ctx, [replay_case(json.load(open(ctx.replay)))])
        return ctx.finish("model_checking", "replay of one recorded event")
    tier = ctx.tier
    rng = random.Random(ctx.seed * 1000003 + 77)
    tlc.model_check(ctx, "Utils", f"Utils_mc_{tier}", vacuity_ignore=("Emit", "EmitTrees"))
    if tier == "thorough":
        tlc.model_check(ctx, "Utils", "Utils_mc_deep", vacuity_ignore=("Emit", "EmitTrees"))
    printed = tlc.generate(ctx, "Utils", "Utils_gen_quick")           # full alphabet, length <= 4
    if tier == "thorough":
        printed += [p for p in tlc.generate(ctx, "Utils", "Utils_gen_thorough") if "s" in p]   # 14 symbols, length <= 5
    trees = [p["trees"] for p in printed if "trees" in p]
    strs = []
    for p in printed:
        if "s" in p:
            strs.append(p["s"])
            strs.extend(p["s"] + [c] for c in p["ext"])
    strs = [list(x) for x in dict.fromkeys(tuple(x) for x in strs)]
    if len(trees) != 1 or len(strs) < 1000:
        raise MachineryError("Utils generation did not print the strings / trees as expected")
    cases = []
    for rep in ("A", "B"):
        for i in range(0, len(strs), 2000):
            cases.append({"group": "strings", "rep": rep, "items": strs[i:i + 2000]})
    texts = CURATED + random_texts(rng, 3000 if tier == "quick" else 60000)
    for i in range(0, len(texts), 2000):
        cases.append({"group": "texts", "items": texts[i:i + 2000]})
    cases.append({"group": "kinds"})
    cases += aeq_cases()
    tops = [t for t in trees[0] if t["k"] in ("list", "map")]      # YAML_tree = dict | list
    for i in range(0, len(tops), 500):
        cases.append({"group": "trees", "items": tops[i:i + 500]})
    cases.append({"group": "handles"})
    maxname = 2 if tier == "quick" else 3
    names = [s for s in strs if len(s) <= maxname]
    for i in range(0, len(names), 500):
        cases.append({"group": "names", "rep": "A", "items": names[i:i + 500]})
    cases.append({"group": "names", "rep": "", "items": CURATED})
    ntr = 0
    for i in range(0, len(cases), 60):        # batch by batch: the thorough tier has millions of events
        ntr += decide(ctx, cases[i:i + 60])
    ctx.extra["strings_from_tlc"] = len(strs)
    ctx.extra["representatives"] = {r: {**SAME, **REP[r]} for r in REP}
    ctx.extra["trees_from_tlc"] = len(tops)
    ctx.extra["module_names_through_reader"] = len(names) + len(CURATED)
    ctx.extra["distinct_traces"] = ntr
    ctx.assumptions += [
        "characters are sampled by class: two representatives per symbol (e.g. tab and newline for 'other whitespace', "
        "Arabic-Indic and full-width digits for 'non-ASCII digit'); the grammars only depend on the class",
        "valid_identifier's 'letter' is read as A-Z a-z, as the function's own pattern spells it",
        "string_is_number's 'represents a number' is read through its body: the strings float() converts",
        "read_yaml's file-name branch is exercised in an empty scratch directory on Linux (names with quotes, tabs, newlines "
        "are legal there)",
        "almost_eq is judged on exact (dyadic) scalings; with the inexact step 0.1 only off the boundary |a-b| = epsilon",
    ]
    return ctx.finish(
        "model_checking",
        "one evaluation = one event (a string through valid_identifier / string_is_number / float / read_yaml twice, a value "
        "through is_number, an almost_eq pair, a YAML tree through write/read, a module name through Netlist) judged by TLC; "
        "non-trivial = events other than strings that every recogniser rejects",
        exhaustive=False)
