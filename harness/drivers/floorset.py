"""FLOORSET -- the FloorSet converter (tools/floorset_parser/floor_set_manager), an extra engine.

TLC (FloorSet) builds small FloorSet instances (blocks with polygon or (w, h, x, y) shape and hard / pre-placed / boundary
flags, pins, block-to-block and pin-to-block connections with weights incl. 0, self and repeated connections, density,
terminals_as_modules on / off; degenerate: no pins, no connections), proves lemmas on the mapping to the expected FPEF
design and DIEF (one module per block and pin, areas, nets closed, density formula, die contains everything, order
freedom) and emits every instance.

The harness turns each instance into the numpy dictionary FloorSetInstance expects (vertex lists traced from the block
polygons, closed, either orientation, padded with -1 as loaders/collate.py pads them; or the (n, 4) array of the README;
float embeddings of harness/lattice.py), runs the real constructor, reads .shape / .density_percentage, writes FPEF and
DIEF twice, loads them with the real Netlist / Die, pulls everything back to integers (1/1000 lattice units) and lets TLC
judge (FloorSetTrace: constructs, fpef_accepted, dief_accepted, module_set, blocks, terminals, nets, weights, die, properties,
repeat).  floorplan_collate is run on batches of the same instances as torch tensors and its padding judged by TLC.
A seeded random driver adds larger instances (up to 6 blocks, 4 pins, 8 connections).
"""
from __future__ import annotations

import json
import os
import random

from ..core import Ctx, MachineryError, digest
from ..forkpool import prepare_imports, run_cases
from ..lattice import EMBEDDINGS, ORIGIN0
from .. import tlc
from .c19 import Pull, obs_netlist, obs_die, as_file, fresh, _outline, pair

K = 1000
EVENTS_PER_TRACE = 40
NO_NET = {"mods": [], "nets": []}
NO_DIE = {"w": 0, "h": 0, "regs": []}
COLLATE_ROWS = 14


# ------------------------------------------------------------------------------------------ the numpy dictionary
def build_data(inst, emb, salt):
    import numpy as np
    nb = len(inst["blocks"])
    if inst["form"] == "lite":
        vb = np.array([[float(emb.length(b["shape"][0][2] - b["shape"][0][0])), float(emb.length(b["shape"][0][3] - b["shape"][0][1])),
                        float(emb.coord(b["shape"][0][0])), float(emb.coord(b["shape"][0][1]))] for b in inst["blocks"]])
    else:
        polys = []
        for bi, b in enumerate(inst["blocks"]):
            v = _outline(b["shape"])
            if (bi + salt) % 2:
                v = v[::-1]                         # either orientation
            k = (bi + salt) % len(v)
            v = v[k:] + v[:k]
            polys.append(v + [v[0]])                # closed: the first vertex repeated (compute_perimeter sums consecutive edges)
        width = COLLATE_ROWS if salt % 2 == 0 else max(len(v) for v in polys) + 1 + salt % 3
        vb = np.full((nb, width, 2), -1.0)
        for i, v in enumerate(polys):
            vb[i, :len(v)] = [(float(emb.coord(x)), float(emb.coord(y))) for x, y in v]
    cons = np.zeros((nb, 5))
    for i, b in enumerate(inst["blocks"]):
        cons[i, 0], cons[i, 1], cons[i, 4] = b["hard"], b["preplaced"], b["boundary"]
    return {"area_blocks": np.array([float(emb.area(b["area"])) for b in inst["blocks"]]),
            "b2b_connectivity": np.array([[float(a), float(b), w[0] / w[1]] for a, b, w in inst["b2b"]]).reshape(-1, 3),
            "p2b_connectivity": np.array([[float(a), float(b), w[0] / w[1]] for a, b, w in inst["p2b"]]).reshape(-1, 3),
            "pins_pos": np.array([[float(emb.coord(x)), float(emb.coord(y))] for x, y in inst["pins"]]).reshape(-1, 2),
            "placement_constraints": cons, "vertex_blocks": vb,
            "metrics": np.array([0.0, float(len(inst["pins"])), 0.0, 0.0, 0.0, 0.0, 0.0, 0.0])}


def observe_convert(case, en):
    from frame.die.die import Die
    from frame.netlist.netlist import Netlist
    from tools.floorset_parser.floor_set_manager.manager import FloorSetInstance
    emb = EMBEDDINGS[en]
    pb = Pull(emb)
    inst = case["inst"]
    ev = {"kind": "convert", "inst": inst, "eps": round(1e-3 / float(emb.step) * K), "unit": [emb.step.numerator, emb.step.denominator], "ret": 0, "exc": "", "shape": [0, 0], "densp": -1,
          "fpef": 0, "net": NO_NET, "dief": 0, "dieo": NO_DIE, "r1": "x", "r2": "x", "d1": "x", "d2": "x", "why": ""}
    dens = None if not inst["dens"] else inst["dens"][0] / inst["dens"][1]
    try:
        fs = FloorSetInstance(build_data(inst, emb, case.get("salt", 0)), dens, bool(inst["tam"]))
    except Exception as e:
        ev["exc"] = type(e).__name__
        ev["why"] = f"{type(e).__name__}: {e}"[:200].replace("\n", " ")
        return ev
    ev["ret"] = 1
    try:
        w, h = fs.shape
        ev["shape"] = [pb.length(w), pb.length(h)]
        d = fs.density_percentage
        ev["densp"] = -1 if d is None else round(float(d) * K)
        t1, t2 = fs.write_yaml_FPEF(), fs.write_yaml_FPEF()
        ev["r1"], ev["r2"] = pair(t1, t2)
        u1, u2 = fs.write_yaml_DIEF(), fs.write_yaml_DIEF()
        ev["d1"], ev["d2"] = pair(u1, u2)
    except Exception as e:        # the accessors and writers of a constructed instance must work
        ev["ret"], ev["exc"] = 0, type(e).__name__
        ev["why"] = f"after construction: {type(e).__name__}: {e}"[:200].replace("\n", " ")
        return ev
    for text, reader, key, okkey, obs in ((t1, Netlist, "net", "fpef", obs_netlist), (u1, Die, "dieo", "dief", obs_die)):
        fresh()
        path = as_file(text)
        try:
            ev[key] = obs(reader(path), pb)
            ev[okkey] = 1
        except Exception as e:
            ev["why"] += f" {okkey}: {type(e).__name__}: {e}"[:160].replace("\n", " ")
        finally:
            os.remove(path)
    return ev


def _tensors(inst):
    """an instance as the integer tensors of a dataset item: (inputs, polygons)"""
    inputs = [[[b["area"]] for b in inst["blocks"]],
              [[a, b, w[0]] for a, b, w in inst["b2b"]],
              [[a, b, w[0]] for a, b, w in inst["p2b"]],
              [list(p) for p in inst["pins"]],
              [[b["hard"], b["preplaced"], 0, 0, b["boundary"]] for b in inst["blocks"]]]
    polys = [[list(v) for v in _outline(b["shape"])] for b in inst["blocks"]]
    return inputs, polys


def observe_collate(case):
    import torch
    from tools.floorset_parser.floor_set_manager.loaders.collate import floorplan_collate
    items, polys, batch = [], [], []
    for inst in case["insts"]:
        inputs, ps = _tensors(inst)
        items.append(inputs)
        polys.append(ps)
        tens = [torch.tensor(t, dtype=torch.int64).reshape(-1, len(t[0]) if t else w)
                for t, w in zip(inputs, (1, 3, 3, 2, 5))]
        tens[0] = tens[0].reshape(-1)                  # area_target is one-dimensional
        batch.append({"input": tens, "label": [[torch.tensor(p, dtype=torch.int64) for p in ps], torch.zeros(8, dtype=torch.int64)]})
    try:
        (out_inputs, (pout, _metrics)) = floorplan_collate(batch)
    except Exception as e:
        return {"exc": f"{type(e).__name__}: {e}"[:300]}

    def rows(t):
        x = t.tolist()
        return [[v] for v in x] if x and not isinstance(x[0], list) else x
    out = [[rows(t[i]) for i in range(len(batch))] for t in out_inputs]
    return {"kind": "collate", "items": [[[r if isinstance(r, list) else [r] for r in t] for t in it] for it in items],
            "out": out, "polys": polys, "pout": pout.tolist()}


def run_case(case):
    if case["kind"] == "collate":
        return [(observe_collate(case), ["-"])]
    found: dict[str, list] = {}
    for en in case["embs"]:
        ev = observe_convert(case, en)
        k = json.dumps(ev, sort_keys=True)
        found.setdefault(k, [ev, []])[1].append(en)
    return list(found.values())


# ------------------------------------------------------------------------------------------ cases
def random_cases(rng: random.Random, n: int) -> list[dict]:
    shapes = [[[0, 0, 2, 2]], [[0, 0, 2, 2], [2, 0, 3, 1]], [[0, 1, 3, 2], [1, 2, 2, 3], [1, 0, 2, 1]],
              [[0, 0, 3, 1], [0, 1, 1, 3], [2, 1, 3, 2]], [[1, 0, 3, 2], [0, 0, 1, 1], [1, 2, 2, 4]], [[0, 0, 3, 2]]]
    ws = [[2, 2], [5, 2], [6, 2], [1, 2], [0, 2]]
    cases = []
    for i in range(n):
        nb = rng.randint(3, 6)
        lite = rng.random() < 0.15
        blocks = []
        for b in range(nb):
            sh = [[0, 0, rng.randint(1, 3), rng.randint(1, 3)]] if lite else rng.choice(shapes)
            sh = [[t[0] + 4 * b, t[1], t[2] + 4 * b, t[3]] for t in sh]
            hard, pre = rng.choice([(0, 0), (0, 0), (1, 0), (0, 1), (1, 1)])
            area = sum((t[2] - t[0]) * (t[3] - t[1]) for t in sh)
            blocks.append({"shape": sh, "area": area + (rng.randint(0, 3) if not hard and not pre else 0), "hard": hard,
                           "preplaced": pre, "boundary": rng.randint(0, 1)})
        W, H = 4 * nb, 6
        pins = [] if rng.random() < 0.08 else [[W, H]] + [rng.choice([[0, rng.randint(0, H)], [rng.randint(0, W), 0], [W, rng.randint(0, H)],
                                                                       [rng.randint(0, W), H]]) for _p in range(rng.randint(0, 3))]
        b2b = [[rng.randrange(nb), rng.randrange(nb), rng.choice(ws)] for _e in range(rng.randint(0, 5))]
        p2b = [[rng.randrange(len(pins)), rng.randrange(nb), rng.choice(ws)] for _e in range(rng.randint(0, 3))] if pins else []
        inst = {"blocks": blocks, "form": "lite" if lite else "prime", "pins": pins, "b2b": b2b, "p2b": p2b,
                "dens": rng.choice([[], [], [1, 2], [3, 4], [1, 1]]), "tam": int(rng.random() < 0.25)}
        cases.append({"kind": "convert", "inst": inst, "origin": "random", "salt": i})
    return cases


# ------------------------------------------------------------------------------------------ judging
def features_of(ev):
    """only used to match known findings"""
    i = ev["inst"]
    nb = len(i["blocks"])
    return {"kind": "convert", "form": i["form"], "tam": int(i["tam"]), "pins": min(len(i["pins"]), 1), "density": int(bool(i["dens"])),
            "connected": int(any(w[0] > 0 for _a, _b, w in i["b2b"] + i["p2b"])), "exception": ev.get("exc", ""),
            "pin_at_origin_only": int(bool(i["pins"]) and all(p == [0, 0] for p in i["pins"])), "blocks": nb}


def decide(ctx: Ctx, cases: list[dict]):
    prepare_imports()
    import numpy  # noqa: F401
    import frame.die.die  # noqa: F401
    import tools.floorset_parser.floor_set_manager.manager  # noqa: F401   (parent imports, forked children use)
    if any(c["kind"] == "collate" for c in cases):
        import tools.floorset_parser.floor_set_manager.loaders.collate  # noqa: F401
    st = ctx.extra.setdefault("observed", {"conversions": 0, "distinct": 0, "constructed": 0, "fpef_accepted": 0, "dief_accepted": 0,
                                           "collate_batches": 0})
    results = run_cases(run_case, cases, nproc=16, case_timeout=300)
    events = []
    for c, (status, val) in zip(cases, results):
        if status != "ok":
            ctx.violation("no_result", {"case": c, "status": status}, {"status": status}, {"kind": c["kind"]})
            continue
        for ev, embs in val:
            if "exc" in ev and "kind" not in ev:
                ctx.violation("raises", {"case": c}, ev, {"kind": "collate"})
                continue
            ctx.count(n=len(embs))
            if ev["kind"] == "convert":
                st["conversions"] += len(embs)
                st["distinct"] += 1
                st["constructed"] += ev["ret"]
                st["fpef_accepted"] += ev["fpef"]
                st["dief_accepted"] += ev["dief"]
            else:
                st["collate_batches"] += 1
            events.append((ev, c, embs))
    traces = []
    for i in range(0, len(events), EVENTS_PER_TRACE):
        part = events[i:i + EVENTS_PER_TRACE]
        t = {"events": [{k: v for k, v in e[0].items() if k != "why"} for e in part]}
        t["id"] = f"{i}-{digest(t)}"
        traces.append((t, part))
    verdicts = tlc.validate_traces(ctx, "FloorSetTrace", "FloorSetTrace", [t for t, _p in traces], chunk=1500)
    for t, part in traces:
        v = verdicts[t["id"]]
        for ev, c, embs in part:
            if ev["kind"] == "convert":
                ctx.count(digest(ev["inst"]), nontrivial=ev["ret"] == 1 and ev["fpef"] == 1, n=0)
        for (l, clause) in v["fails"]:
            ev, c, embs = part[l - 1]
            if ev["kind"] == "convert":
                case = {"kind": "convert", "inst": ev["inst"], "salt": c.get("salt", 0), "embs": embs, "origin": c.get("origin", "")}
                detail = {k: ev[k] for k in ("ret", "exc", "why", "shape", "densp", "fpef", "dief", "net", "dieo")}
                ctx.violation(clause, case, detail, features_of(ev))
            else:
                ctx.violation(clause, {"kind": "collate", "insts": c["insts"]}, {"out": ev["out"], "pout": ev["pout"]}, {"kind": "collate"})
        for (l, what) in v["drift"]:
            if not any(f[0] == l for f in v["fails"]):
                ctx.model_drift(f"convert: {what} differs from the model (every clause holds)")
    for t, part in traces[:1] + traces[-1:]:
        ev = part[-1][0]
        ctx.sample({k: ev[k] for k in ev if k in ("kind", "inst", "ret", "exc", "shape", "fpef", "dief")})


def run(ctx: Ctx) -> int:
    if ctx.replay:
        rec = json.load(open(ctx.replay))
        c = rec["case"]
        decide(ctx, [c])
        return ctx.finish("model_checking", "replay of one recorded case")
    tier = ctx.tier
    tlc.model_check(ctx, "FloorSet", f"FloorSet_mc_{tier}", vacuity_ignore=("Emit",))
    printed = tlc.generate(ctx, "FloorSet", f"FloorSet_gen_{tier}")
    rng = random.Random(ctx.seed * 1000003 + 31)
    cases = []
    for k, p in enumerate(printed):
        n = 2 if tier == "thorough" and p["mode"] == "blocks" else 1
        cases.append({"kind": "convert", "inst": p["inst"], "origin": "tlc", "salt": k,
                      "embs": [ORIGIN0[(k + 3 * j) % len(ORIGIN0)] for j in range(n)]})
    for k, c in enumerate(random_cases(rng, 150 if tier == "quick" else 1500)):
        c["embs"] = [ORIGIN0[k % len(ORIGIN0)]]
        cases.append(c)
    # collate: batches of three emitted / random instances of different sizes
    pool = [c["inst"] for c in cases if c["inst"]["form"] == "prime" and c["inst"]["blocks"]]
    for k in range(20 if tier == "quick" else 200):
        cases.append({"kind": "collate", "insts": [pool[(k * 37 + j * 101) % len(pool)] for j in range(3)]})
    decide(ctx, cases)
    st = ctx.extra["observed"]
    if min(st["constructed"], st["fpef_accepted"], st["dief_accepted"], st["collate_batches"]) == 0:
        raise MachineryError(f"vacuous run: {st}")
    ctx.extra["embeddings"] = ORIGIN0
    ctx.extra["cases"] = {"tlc": len(printed), "total": len(cases)}
    ctx.assumptions += [
        "polygons are given as closed vertex lists (first vertex repeated), in either orientation, padded with -1 as the loaders pad them",
        "pins lie on the boundary of the floorplan and span it (FloorSet), so the extent of the pins is the bounding extent; with no pins the "
        "expected die is the extent of the blocks",
        "one origin-0 float embedding per instance (two for the blocks-mode instances in thorough), rotating; numbers compared in 1/1000 lattice units (weights in 1/1000)",
        "weight 0 -> 1, self connections and repeated connections are specified as the code treats them (no source documents them)",
        "the dataset classes of loaders/prime.py and lite.py need the downloaded FloorSet files and are not run; floorplan_collate is run on "
        "synthetic integer tensors",
    ]
    return ctx.finish(
        "model_checking",
        "TLC enumerates every instance of the bounded universe (blocks mode x wiring mode x density x terminal mode) and proves the lemmas of "
        "the mapping; every instance goes through the real FloorSetInstance, writers, Netlist and Die; evaluations = conversions x embeddings "
        "+ collate batches; distinct = distinct instances judged by TLC; non-trivial = instances whose FPEF was produced and accepted",
        exhaustive=False)
