"""C10 -- Global floorplanning returns a feasible allocation and rigid hard modules.

TLC (GlbFloor / GlbFloorMC) model-checks the step contracts of the refine-and-optimise loop (InitAlloc, Optimize,
Extract, Refine, Stop) on a small lattice with ratio quanta k/Den, where Optimize returns ANY solution of the
modelled constraints, and prints the parameter combinations of the conformance runs.  Each combination is
expanded into a die + netlist derived from the examples under tools/glbfloor/example (plus larger seeded random
instances) and run through the real `glbfloor(die, threshold, alpha, max_iter=...)` in forked workers under
several float embeddings.  Harness-side wrappers on the module-level names
`tools.glbfloor.optimization.create_initial_allocation` / `optimize_allocation` and on `Allocation.refine`
snapshot the allocation, the centres and the rectangles after every step; the snapshots are pulled back to
integers (cells exactly, 1/1024 lattice unit; ratios x10^4) and judged by TLC (GlbFloorTrace: property clauses on
every snapshot glbfloor could return -> VIOLATION, step conformance -> MODEL-DRIFT).
Runs in which the optimiser does not return (GEKKO "Solution Not Found", an assertion while the allocation is
rebuilt, ...) are outside the quantifier and only counted.
"""
from __future__ import annotations

import json
import math
import random
import time

from ..core import Ctx, canon, digest
from ..forkpool import prepare_imports, run_cases
from fractions import Fraction as F

from ..lattice import EMBEDDINGS, ORIGIN0, Emb, OffLattice
from .. import tlc

SUB = 1024                 # quanta per lattice unit (cells are dyadic fractions: exact)
DEN = 10000                # ratios x 10^4
U = 4                      # lattice units per grid square of the examples (so quarters of a square are integral)
# the die's origin is (0,0): every embedding without offset; plus two small magnitudes (lattice unit 1e-5 and 1e-6, dies
# of 1e-4 .. 1e-5): GEKKO's feasibility tolerance is absolute, so a constraint written in length or area units is only
# seen to be violated when the numbers are small
EMBS = {**EMBEDDINGS, "e5": Emb("e5", F(1, 10 ** 5))}
EMB_ORDER = ORIGIN0 + ["micro", "e5"]


# ------------------------------------------------------------------------------------------------ cases
def case_from_tlc(p: dict, emb: str) -> dict | None:
    """A parameter combination printed by TLC -> runnable case (lattice units; one grid square of the examples = 4).
    None when the combination is not applicable (initial grid on a die with fixed modules or blockages)."""
    w, h = p["die"][0] // 2, p["die"][1] // 2                  # grid squares
    variant = p["variant"]
    has_fixed = variant in ("fixed", "mixed")
    has_hard = variant in ("hard", "flip", "mixed", "twin")
    if variant == "over":
        return _over_case(p, emb, w, h)
    if p["init"] == "grid" and has_fixed:
        return None
    W, H = w * U, h * U
    blk, mods, nets = [], [], []
    taken = set()
    fixed_idx = hard_idx = None
    if has_fixed:                                              # example 2: a blockage and a fixed block at the top
        blk.append([2, 2, 6, 6])
        taken |= {(0, 0), (1, 0), (0, 1), (1, 1)} if False else set()
        mods.append({"kind": "fixed", "rects": [[1, H - 2, 7, H]]})
        fixed_idx = len(mods)
    if has_hard:                                               # example 3: trunk 2 x 0.5 + branch 0.5 x 0.5
        x0, y0 = 0, (H // 2)
        mods.append({"kind": "hard", "flip": int(variant in ("flip", "mixed")),
                     "rects": [[x0, y0, x0 + 8, y0 + 2], [x0 + 3, y0 + 2, x0 + 5, y0 + 4]]})
        hard_idx = len(mods)
        if variant == "twin":      # a second macro with the SAME trunk description (same place, same shape), another branch
            mods.append({"kind": "hard", "flip": 1, "rects": [[x0, y0, x0 + 8, y0 + 2], [x0, y0 + 2, x0 + 2, y0 + 4]]})
    # soft modules on the grid squares; their area is scaled so that everything fits
    free = W * H - sum((b[2] - b[0]) * (b[3] - b[1]) for b in blk) - sum(
        (r[2] - r[0]) * (r[3] - r[1]) for m in mods for r in m["rects"])
    squares = [(i, j) for j in range(h) for i in range(w)]
    if has_fixed:
        squares = [(i, j) for (i, j) in squares if j < h - 1]
    area = U * U * p["ascale"] / 4
    if area * len(squares) > 0.85 * free:
        area = 0.85 * free / len(squares)
    grid = {}
    for (i, j) in squares:
        mods.append({"kind": "soft", "area": area, "center": [i * U + 2, j * U + 2]})
        grid[(i, j)] = len(mods)
    for (i, j), m in grid.items():
        if (i + 1, j) in grid:
            nets.append([1, [m, grid[(i + 1, j)]]])
        if (i, j + 1) in grid:
            nets.append([1, [m, grid[(i, j + 1)]]])
    if hard_idx:
        r1 = min(1, max(j for (_, j) in grid))
        nets.append([1, sorted({grid[(0, 0)], grid[(w - 1, 0)], grid[(0, r1)], grid[(w - 1, r1)]}) + [hard_idx]])
    if fixed_idx:
        top = max(j for (_, j) in grid)
        nets.append([1, [grid[(0, top)], grid[(w - 1, top)], fixed_idx]])
    init = {"none": ["none"], "grid": ["grid", h, w], "split4": ["split", 2.0, 4], "split8": ["split", 2.0, 8]}[p["init"]]
    return {"src": "tlc", "emb": emb, "die": [W, H], "blk": blk, "mods": mods, "nets": nets,
            "thr": p["thr"] / 100, "alpha": _alpha(p), "maxiter": p["maxiter"], "init": init}


def _alpha(p: dict) -> float:
    return 0.999 if p["alpha"] == 999 else p["alpha"] / 100           # (999 stands for 0.999: wire length all but alone)


def _over_case(p: dict, emb: str, w: int, h: int) -> dict:
    """A small fixed block in the middle of the die and a big soft module dropped on it (its initial square covers the
    cell of the fixed block and the cells around it), small soft modules elsewhere.  The unchanged optimiser mostly
    gives up on these ("Solution Not Found": outside the quantifier); whatever IS returned is judged."""
    W, H = w * U, h * U
    fx, fy = (W // 2) // 2 * 2, (H // 2) // 2 * 2
    mods = [{"kind": "fixed", "rects": [[fx - 1, fy - 1, fx + 1, fy + 1]]},
            {"kind": "soft", "area": U * U * (1 + p["ascale"] / 2), "center": [fx, fy]}]
    corners = [(2, 2), (W - 2, 2), (2, H - 2), (W - 2, H - 2)]
    for (x, y) in corners[:2 + p["ascale"] % 2]:
        mods.append({"kind": "soft", "area": U * U / 4, "center": [x, y]})
    n = len(mods)
    nets = [[1, [1, 2]]] + [[1, [2, k]] for k in range(3, n + 1)] + [[1, [1, n]]]
    init = {"none": ["split", 2.0, 16], "grid": ["split", 2.0, 24], "split4": ["split", 2.0, 12], "split8": ["split", 2.0, 32]}[p["init"]]
    return {"src": "tlc", "emb": emb, "die": [W, H], "blk": [], "mods": mods, "nets": nets, "motif": "soft_over_fixed",
            "thr": p["thr"] / 100, "alpha": _alpha(p), "maxiter": p["maxiter"], "init": init}


def _overlaps(a, b):
    return min(a[2], b[2]) > max(a[0], b[0]) and min(a[3], b[3]) > max(a[1], b[1])


def random_case(rng: random.Random, emb: str) -> dict:
    while True:
        c = _random_case(rng, emb)
        if c is not None:
            return c


def _random_case(rng: random.Random, emb: str) -> dict | None:
    """Larger / less regular instances: dies up to 4x4 grid squares, blockage and fixed block anywhere, soft
    modules of random areas and centres, a movable hard module of 1..3 rectangles (flippable or not)."""
    # (wide and flat dies as often as tall ones: a bound taken from the wrong side of the die only shows on one of them)
    w, h = rng.choice([(2, 3), (3, 2), (2, 4), (4, 2), (3, 3), (4, 3), (4, 4), (3, 4), (5, 2), (6, 2), (2, 5)])
    W, H = w * U, h * U
    blk, mods = [], []
    occupied = []
    if rng.random() < 0.4:
        x, y = rng.randrange(0, W - 3), rng.randrange(0, H - 3)
        b = [x, y, x + rng.choice([2, 4]), y + rng.choice([2, 4])]
        blk.append(b)
        occupied.append(b)
    if rng.random() < 0.55:
        for _ in range(20):
            fw, fh = rng.randint(2, 6), rng.randint(2, 4)
            x, y = rng.randrange(0, W - fw + 1), rng.randrange(0, H - fh + 1)
            rs = [[x, y, x + fw, y + fh]]
            if rng.random() < 0.3 and x + fw + 2 <= W:
                rs.append([x + fw, y, x + fw + 2, y + 2])
            if not any(_overlaps(r, o) for r in rs for o in occupied):
                mods.append({"kind": "fixed", "rects": rs})
                occupied += rs
                break
    if rng.random() < 0.6:
        tw, th = rng.choice([(8, 2), (4, 2), (4, 4), (2, 6), (6, 2)])
        tw, th = min(tw, W), min(th, H)
        x, y = rng.randrange(0, W - tw + 1), rng.randrange(0, H - th + 1)
        rs = [[x, y, x + tw, y + th]]
        nb = rng.choice([0, 1, 1, 2])
        if nb >= 1 and tw >= 4:
            bx = x + 2 * rng.randrange(0, (tw - 2) // 2 + 1)
            rs.append([bx, y + th, bx + 2, y + th + 2])
        if nb >= 2 and tw >= 4:
            bx = x + 2 * rng.randrange(0, (tw - 2) // 2 + 1)
            if y - 2 >= 0:
                rs.append([bx, y - 2, bx + 2, y])
        mods.append({"kind": "hard", "flip": int(rng.random() < 0.5), "rects": rs})
    free = W * H - sum((r[2] - r[0]) * (r[3] - r[1]) for r in occupied) - sum(
        (r[2] - r[0]) * (r[3] - r[1]) for m in mods if m["kind"] == "hard" for r in m["rects"])
    # soft modules spread over distinct free grid squares (as the placement stages before glbfloor leave them), jittered
    def free_square(i, j):
        sq = [i * U, j * U, i * U + U, j * U + U]
        return not any(_overlaps(sq, o) for o in occupied)
    squares = [(i, j) for i in range(w) for j in range(h) if free_square(i, j)]
    rng.shuffle(squares)
    squares = squares[:rng.randint(3, 7)]
    if len(squares) < 3:
        return None
    shares = [rng.uniform(0.4, 1.0) for _ in squares]
    total = rng.uniform(0.35, 0.85) * free
    for (i, j), s in zip(squares, shares):
        mods.append({"kind": "soft", "area": round(min(total * s / sum(shares), 1.5 * U * U), 3),
                     "center": [i * U + 2 + rng.choice([-1, 0, 0, 1]), j * U + 2 + rng.choice([-1, 0, 0, 1])]})
    motif = ""
    hards = [m for m in mods if m["kind"] == "hard"]
    if hards and rng.random() < 0.35:
        # a variant of the same macro: the SAME first rectangle (same description), a different further rectangle
        t = hards[0]["rects"][0]
        extra = [t[0], t[3], t[0] + 2, t[3] + 2] if t[3] + 2 <= H else [t[2], t[1], t[2] + 2, t[1] + 2]
        if len(hards[0]["rects"]) == 1:
            hards[0]["rects"].append([t[2] - 2, t[3], t[2], t[3] + 2] if t[3] + 2 <= H and t[2] - t[0] >= 4 else [t[0], t[1] - 2, t[0] + 2, t[1]])
            if min(hards[0]["rects"][1][:2]) < 0 or hards[0]["rects"][1] == extra:
                hards[0]["rects"].pop()
        mods.append({"kind": "hard", "flip": int(rng.random() < 0.5), "rects": [list(t), extra]})
        motif = "twin_macros"
    fixeds = [m for m in mods if m["kind"] == "fixed"]
    softs = [m for m in mods if m["kind"] == "soft"]
    if fixeds and softs and rng.random() < 0.25:
        # a soft module dropped on a fixed one (its square covers the fixed cell and what surrounds it)
        r = fixeds[0]["rects"][0]
        softs[0]["center"] = [(r[0] + r[2]) // 2, (r[1] + r[3]) // 2]
        softs[0]["area"] = round(max(softs[0]["area"], 2.5 * (r[2] - r[0] + 2) * (r[3] - r[1] + 2)), 3)
        motif = motif or "soft_over_fixed"
    elif len(softs) >= 2 and rng.random() < 0.15:
        softs[1]["center"] = list(softs[0]["center"])              # two soft modules start at the same point
    rng.shuffle(mods)
    n = len(mods)
    order = list(range(1, n + 1))
    rng.shuffle(order)
    nets = [[rng.choice([1, 1, 2, 0.5]), [order[rng.randrange(j)], order[j]]] for j in range(1, n)]
    for _ in range(rng.randint(0, 3)):
        nets.append([rng.choice([1, 2, 0.5]), rng.sample(range(1, n + 1), rng.randint(2, min(4, n)))])
    clean = not blk and not any(m["kind"] == "fixed" for m in mods)
    # (most instances without initial refinement or with a low threshold make GEKKO give up: they are sampled less)
    inits = [["none"]] + [["split", 2.0, rng.randint(2, 10)], ["split", 3.0, rng.randint(2, 8)]] * 3 + ([["grid", h, w]] * 3 if clean else [])
    if motif == "soft_over_fixed":
        inits = [["split", 2.0, rng.randint(12, 40)]]              # fine cells: the fixed cell gets neighbours
    return {"src": "rnd", "motif": motif, "emb": emb, "die": [W, H], "blk": blk, "mods": mods, "nets": nets,
            "thr": rng.choice([0.5, 0.6, 0.7, 0.75, 0.8, 0.85, 0.85] + [0.9] * 5 + [0.95] * 8), "alpha": rng.choice([0, 0.1, 0.3, 0.5, 0.8, 1, 1, 0.999]),
            "maxiter": rng.randint(1, 4), "init": rng.choice(inits)}


def wide_case(rng: random.Random, emb: str) -> dict:
    """A die much wider than tall, few modules on it (room to allocate more than their area) and the extreme trade-off
    alpha = 1 or 0.999 (no dispersion term): the bounds of the centre variables are then all that keeps the module
    centres in the die."""
    w, h = rng.choice([(4, 1), (6, 1), (8, 1), (8, 2), (6, 2), (5, 1)])
    W, H = w * U, h * U
    mods = []
    xs = rng.sample(range(w), min(w, rng.randint(2, 4)))
    for i in xs:
        mods.append({"kind": "soft", "area": round(rng.uniform(0.3, 0.9) * U * U * h / 2, 3),
                     "center": [i * U + 2, H // 2]})
    occupied = []
    if rng.random() < 0.6:                                    # a fixed block at the right end
        r = [W - U, 0, W, min(H, U)]
        mods.append({"kind": "fixed", "rects": [r]})
        occupied.append(r)
    if rng.random() < 0.6:                                    # a movable hard square
        x = rng.randrange(0, W - 2 * U, 2)
        mods.append({"kind": "hard", "flip": 0, "rects": [[x, 0, x + U, min(H, U)]]})
    rng.shuffle(mods)
    n = len(mods)
    order = list(range(1, n + 1))
    rng.shuffle(order)
    nets = [[rng.choice([1, 2]), [order[rng.randrange(j)], order[j]]] for j in range(1, n)]
    return {"src": "rnd", "motif": "wide_alpha1", "emb": emb, "die": [W, H], "blk": [], "mods": mods, "nets": nets,
            "thr": rng.choice([0.9, 0.95, 0.95]), "alpha": rng.choice([1, 1, 0.999]), "maxiter": rng.randint(1, 2),
            "init": ["split", 2.0, rng.choice([w * h, 2 * w * h, w * h + 2])]}


# ------------------------------------------------------------------------------------------------ real code
def build_inputs(case: dict, emb):
    mods = {}
    for i, m in enumerate(case["mods"]):
        d: dict = {}
        if m["kind"] == "soft":
            d["area"] = emb.area(m["area"])
            d["center"] = [emb.coord(m["center"][0]), emb.coord(m["center"][1])]
        else:
            d[m["kind"]] = True
            d["rectangles"] = [emb.rect(r) for r in m["rects"]]
            if m.get("flip"):
                d["flip"] = True
        mods[f"M{i + 1}"] = d
    nets = []
    for wgt, pins in case["nets"]:
        e = [f"M{p}" for p in pins]
        if wgt != 1:
            e.append(wgt)
        nets.append(e)
    die = {"width": emb.length(case["die"][0]), "height": emb.length(case["die"][1])}
    if case["blk"]:
        die["regions"] = [emb.rect(b) + ["#"] for b in case["blk"]]
    return {"Modules": mods, "Nets": nets}, die


def run_case(case: dict) -> dict:
    """Runs one case on the real code (forked child) -> observation, or a `no_result` record."""
    import shutil
    from frame.geometry.geometry import Rectangle
    from frame.netlist.netlist import Netlist
    from frame.die.die import Die
    from frame.allocation.allocation import Allocation
    import tools.glbfloor.optimization as opt

    emb = EMBS[case["emb"]]
    step, off = float(emb.step), float(emb.off)
    q = lambda v: int(round((float(v) - off) / step * SUB))                  # noqa: E731
    Rectangle.undefine_epsilon()
    tree, dtree = build_inputs(case, emb)
    try:
        netlist = Netlist(tree)
        die = Die(dtree, netlist)
        if case["init"][0] == "grid":
            die.initial_grid(case["init"][1], case["init"][2])
        elif case["init"][0] == "split":
            die.split_refinable_regions(case["init"][1], case["init"][2])
    except Exception as e:
        # the documents are valid by construction (on the unchanged tree this count is 0, see coverage.runs): a tree that
        # cannot even load them does not return anything to judge
        return {"status": "no_result", "exc": type(e).__name__, "msg": str(e)[:100], "where": "loading the netlist / die",
                "optimisations_done": 0}
    names = [m.name for m in netlist.modules]
    assert names == [f"M{i + 1}" for i in range(len(names))]
    kind = [m["kind"] for m in case["mods"]]

    def corners(r):
        cx, cy, w, h = r.center.x, r.center.y, r.shape.w, r.shape.h
        return [q(cx - w / 2), q(cy - h / 2), q(cx + w / 2), q(cy + h / 2)]

    def snap_alloc(a):
        cells = [emb.back_rectangle(ra.rect, SUB) for ra in a.allocations]     # OffLattice if a cell is not dyadic
        ratio = [[int(round(ra.alloc.get(nm, 0.0) * DEN)) for nm in names] for ra in a.allocations]
        return cells, ratio

    def snap_mods(nl):
        centre, mrects = [], []
        for m, k in zip(nl.modules, kind):
            centre.append([q(m.center.x), q(m.center.y)] if m.center is not None else [-99999, -99999])
            mrects.append([] if k == "soft" else [corners(r) for r in m.rectangles])
        return centre, mrects

    c0, r0 = snap_mods(netlist)
    inst_mods = [{"kind": k, "flip": int(bool(m.get("flip"))), "rects": r0[i], "c0": c0[i]}
                 for i, (m, k) in enumerate(zip(case["mods"], kind))]
    events = []
    ev = lambda t, cells, ratio, centre=(), mrects=(): events.append(                    # noqa: E731
        {"t": t, "cells": cells, "ratio": ratio, "centre": list(centre), "mrects": list(mrects)})

    # ---- wrappers on the names the loop resolves at call time
    made = []
    hooks = {"init": hasattr(opt, "create_initial_allocation"), "opt": hasattr(opt, "optimize_allocation"),
             "refine": hasattr(Allocation, "refine")}
    saved = {}
    if hooks["init"]:
        saved["init"] = opt.create_initial_allocation

        def w_init(*a, **kw):
            res = saved["init"](*a, **kw)
            ev("init", *snap_alloc(res))
            return res
        opt.create_initial_allocation = w_init
    if hooks["opt"]:
        saved["opt"] = opt.optimize_allocation

        def w_opt(*a, **kw):
            res = saved["opt"](*a, **kw)
            ev("optimize", *snap_alloc(res[1]), *snap_mods(res[0].netlist))
            return res
        opt.optimize_allocation = w_opt
    if hooks["refine"]:
        saved["refine"] = Allocation.refine

        def w_refine(self, *a, **kw):
            res = saved["refine"](self, *a, **kw)
            ev("refine", *snap_alloc(res))
            return res
        Allocation.refine = w_refine
    saved["gekko"] = opt.GEKKO

    def w_gekko(*a, **kw):
        g = saved["gekko"](*a, **kw)
        made.append(g)
        return g
    opt.GEKKO = w_gekko

    try:
        die2, alloc = opt.glbfloor(die, case["thr"], case["alpha"], max_iter=case["maxiter"])
        ev("return", *snap_alloc(alloc), *snap_mods(die2.netlist))
    except OffLattice as e:
        return {"status": "off_lattice", "exc": str(e)[:200]}
    except Exception as e:   # the optimiser did not return: outside the quantifier
        import traceback
        tb = traceback.extract_tb(e.__traceback__)[-1]
        msg = str(e).strip().splitlines()
        return {"status": "no_result", "exc": type(e).__name__, "msg": (msg[-1] if msg else "")[:120], "where": tb.name,
                "optimisations_done": sum(1 for x in events if x["t"] == "optimize")}
    finally:
        opt.GEKKO = saved["gekko"]
        if hooks["init"]:
            opt.create_initial_allocation = saved["init"]
        if hooks["opt"]:
            opt.optimize_allocation = saved["opt"]
        if hooks["refine"]:
            Allocation.refine = saved["refine"]
        for g in made:                                          # GEKKO leaves one temp directory per model
            shutil.rmtree(getattr(g, "_path", "") or "/nonexistent", ignore_errors=True)
    return {"status": "ok", "die": [case["die"][0] * SUB, case["die"][1] * SUB], "mods": inst_mods,
            "thr": int(round(case["thr"] * DEN)), "maxiter": case["maxiter"], "events": events,
            "hooks": int(all(hooks.values()))}


XS = 2                     # Extract replay: coordinates in half lattice units (everything is integral there)


def extract_case(rec: dict, emb: str, den: int) -> dict:
    """A solved state printed by TLC (EMITSOL) -> runnable case for the real extract_solution."""
    return {"src": "sol", "emb": emb, "den": den, "inst": rec["inst"], "cells": rec["cells"], "ratio": rec["ratio"],
            "sol": rec["sol"], "placed": rec["placed"]}


def run_extract_case(case: dict) -> dict:
    """Builds the real die / netlist / cells and a synthetic solver model holding the solution, calls
    tools.glbfloor.optimization.extract_solution and observes what it returns."""
    import types
    from frame.geometry.geometry import Rectangle, parse_yaml_rectangle
    from frame.netlist.netlist import Netlist
    from frame.die.die import Die
    import tools.glbfloor.optimization as opt

    emb = EMBS[case["emb"]]
    step, off = float(emb.step), float(emb.off)
    q = lambda v: int(round((float(v) - off) / step * XS))                   # noqa: E731
    inst, sol, den = case["inst"], case["sol"], case["den"]
    Rectangle.undefine_epsilon()
    mods = {}
    for i, m in enumerate(inst["mods"]):
        d: dict = {}
        if m["kind"] == "soft":
            d["area"] = emb.area(16)
            d["center"] = [emb.coord(m["c0"][0]), emb.coord(m["c0"][1])]
        else:
            d[m["kind"]] = True
            d["rectangles"] = [emb.rect(r) for r in m["rects"]]
            if m["flip"]:
                d["flip"] = True
        mods[f"M{i + 1}"] = d
    names = list(mods)
    try:
        netlist = Netlist({"Modules": mods, "Nets": [names[:2]]})
        die = Die({"width": emb.length(inst["die"][0]), "height": emb.length(inst["die"][1])}, netlist)
    except Exception as e:      # (0 on the unchanged tree) a tree that cannot load the documents returns nothing to judge
        return {"status": "no_result", "exc": type(e).__name__, "msg": str(e)[:100], "where": "loading", "all_empty": 0}
    cells = [parse_yaml_rectangle(emb.rect(c)) for c in case["cells"]]
    model = types.SimpleNamespace(a={}, x={}, y={}, d={})
    for i, (nm, m) in enumerate(zip(names, inst["mods"])):
        model.a[nm] = {c: float(sol["a"][c][i]) / den for c in range(len(cells))}
        model.x[nm], model.y[nm] = float(emb.coord(sol["centre"][i][0])), float(emb.coord(sol["centre"][i][1]))
        model.d[nm] = 0.0
        if m["kind"] == "hard":
            for r, pr in enumerate(case["placed"][i]):      # the "fake" module of every rectangle sits where the solution puts it
                cx, cy, _w, _h = emb.rect(pr)
                model.x[f"{nm}_{r}"], model.y[f"{nm}_{r}"], model.d[f"{nm}_{r}"] = float(cx), float(cy), 0.0

    def corners(r):
        cx, cy, w, h = r.center.x, r.center.y, r.shape.w, r.shape.h
        return [q(cx - w / 2), q(cy - h / 2), q(cx + w / 2), q(cy + h / 2)]

    x2 = lambda rs: [[XS * v for v in r] for r in rs]                          # noqa: E731
    inst_mods = [{"kind": m["kind"], "flip": m["flip"], "rects": x2(m["rects"]), "c0": [XS * m["c0"][0], XS * m["c0"][1]]}
                 for m in inst["mods"]]
    try:
        die2, alloc, _disp = opt.extract_solution(model, die, cells, inst["thr"] / den)
    except Exception as e:
        return {"status": "no_result", "exc": type(e).__name__, "msg": str(e)[:100], "where": "extract_solution",
                "all_empty": int(all(all(v * 1.0 / den <= 1 - inst["thr"] / den for v in row) for row in sol["a"]))}
    scale = DEN // den
    event = {"t": "extract", "cells0": x2(case["cells"]), "ratio0": [[v * scale for v in row] for row in case["ratio"]],
             "a": [[v * scale for v in row] for row in sol["a"]], "scentre": [[XS * c[0], XS * c[1]] for c in sol["centre"]],
             "mx": sol["mx"], "my": sol["my"],
             "cells": [corners(ra.rect) for ra in alloc.allocations],
             "ratio": [[int(round(ra.alloc.get(nm, 0.0) * DEN)) for nm in names] for ra in alloc.allocations],
             "centre": [[q(m.center.x), q(m.center.y)] for m in die2.netlist.modules],
             "mrects": [[] if mm["kind"] == "soft" else [corners(r) for r in m.rectangles]
                        for m, mm in zip(die2.netlist.modules, inst["mods"])]}
    return {"status": "ok", "die": [XS * inst["die"][0], XS * inst["die"][1]], "mods": inst_mods,
            "thr": inst["thr"] * scale, "maxiter": inst["maxiter"], "events": [event], "hooks": 1}


def _dispatch(case: dict) -> dict:
    return run_extract_case(case) if case["src"] == "sol" else run_case(case)


# ------------------------------------------------------------------------------------------------ decision
def decide(ctx: Ctx, cases: list[dict]):
    prepare_imports()
    import tools.glbfloor.optimization  # noqa: F401  (imported in the parent, used only in the children)
    t0 = time.time()
    results = run_cases(_dispatch, cases, nproc=16, case_timeout=300)
    ctx.extra["real_runs_wall_s"] = round(time.time() - t0, 1)
    st = ctx.extra.setdefault("runs", {"total": 0, "returned": 0, "no_result": 0, "no_result_by_cause": {},
                                       "snapshots_judged": 0, "optimisations_observed": 0, "refinements_observed": 0,
                                       "without_step_hooks": 0})
    traces, owner = {}, {}
    for c, (status, val) in zip(cases, results):
        st["total"] += c["src"] != "sol"
        feat = {"emb": c["emb"], "src": c["src"]}
        if status != "ok":          # timeout / hard crash of the solver process: the optimiser did not return
            st["no_result"] += 1
            st["no_result_by_cause"][status] = st["no_result_by_cause"].get(status, 0) + 1
            continue
        if c["src"] == "sol" and val["status"] == "no_result":
            # a solution that leaves every cell empty cannot be rebuilt (the specified Extract is not enabled either)
            xs = ctx.extra.setdefault("extract_replays_not_rebuilt", {"all_cells_empty": 0, "other": 0, "documents_not_loaded": 0})
            if val["where"] == "loading":
                xs["documents_not_loaded"] += 1
                continue
            xs["all_cells_empty" if val["all_empty"] else "other"] += 1
            if not val["all_empty"]:
                ctx.model_drift(f"extract_solution raised {val['exc']} on a solution the specification extracts")
            continue
        if val["status"] == "no_result":
            st["no_result"] += 1
            cause = f"{val['exc']} in {val['where']}: {val['msg']}"[:90]
            st["no_result_by_cause"][cause] = st["no_result_by_cause"].get(cause, 0) + 1
            continue
        if val["status"] == "off_lattice":
            ctx.count()
            ctx.violation("off_lattice", c, val, feat)
            continue
        val.pop("status")
        hooks = val.pop("hooks")
        if c["src"] != "sol":
            st["returned"] += 1
            if not hooks:
                st["without_step_hooks"] += 1
        key = digest(val)
        if key not in traces:
            val["id"] = key
            traces[key] = val
            owner[key] = c
    verdicts = tlc.validate_traces(ctx, "GlbFloorTrace", "GlbFloorTrace", list(traces.values()), chunk=1500)
    for key, v in verdicts.items():
        t, c = traces[key], owner[key]
        if c["src"] == "sol":
            ctx.extra["extract_replays_judged"] = ctx.extra.get("extract_replays_judged", 0) + 1
            mirrored = any(any(c["sol"]["mx"]) or any(c["sol"]["my"]) for _ in (0,))
            ctx.count(key, nontrivial=mirrored or len(t["events"][0]["cells"]) > 1, n=1)
            for (l, clause) in v["fails"]:
                ctx.violation(clause, c, {"event": "extract", "observed": {k: t["events"][0][k] for k in ("cells", "ratio", "centre", "mrects")}},
                              {"emb": c["emb"], "src": "sol", "event": "extract"})
            for (l, clause) in v["drift"]:
                ctx.model_drift(f"{clause} at extract (replayed solution)")
            continue
        nopt = sum(1 for e in t["events"] if e["t"] == "optimize")
        nref = sum(1 for e in t["events"] if e["t"] == "refine")
        st["snapshots_judged"] += nopt + 1
        st["optimisations_observed"] += nopt
        st["refinements_observed"] += nref
        # non-trivial: some cell shared by several modules or refined, i.e. not the trivial one-module-per-cell answer
        last = t["events"][-1]
        shared = any(sum(1 for x in rv if x > 0) > 1 for rv in last["ratio"])
        ctx.count(key, nontrivial=shared or nref > 0, n=len(t["events"]))
        for (l, clause) in v["fails"]:
            e = t["events"][l - 1]
            ctx.violation(clause, c, {"event": l, "type": e["t"], "snapshot": e, "mods": t["mods"], "die": t["die"]},
                          {"emb": c["emb"], "src": c["src"], "event": e["t"], "motif": c.get("motif", "")})
        for (l, clause) in v["drift"]:
            ctx.model_drift(f"{clause} at {t['events'][l - 1]['t']}")
    shown = {"sol": 0, "tlc": 0, "rnd": 0}
    for t in traces.values():
        src = owner[t["id"]]["src"]
        if shown[src] < 1:
            shown[src] += 1
            ctx.sample({"case": owner[t["id"]], "trace": {**t, "events": t["events"][:1] + t["events"][-1:]}})


def run(ctx: Ctx) -> int:
    if ctx.replay:
        rec = json.load(open(ctx.replay))
        decide(ctx, [rec["case"]])
        return ctx.finish("model_checking", "replay of one recorded case")
    tier = ctx.tier
    quick = tier == "quick"
    tlc.model_check(ctx, "GlbFloorMC", f"GlbFloor_mc_{tier}", vacuity_ignore=("EmitCase", "EmitSolved"))
    params = tlc.generate(ctx, "GlbFloorMC", f"GlbFloor_gen_{tier}")
    params.sort(key=canon)
    rng = random.Random(ctx.seed * 1000003 + 10)
    ctx.extra["combinations_from_tlc"] = len(params)
    params = rng.sample(params, min(len(params), 200 if quick else 4000))     # a seeded sample of the universe is run
    cases, skipped = [], 0
    for i, p in enumerate(params):
        c = case_from_tlc(p, EMB_ORDER[i % len(EMB_ORDER)])
        if c is None:
            skipped += 1
        else:
            cases.append(c)
    ctx.extra["combinations_not_applicable"] = skipped
    ctx.extra["cases_from_tlc"] = len(cases)
    # Extract alone: the solutions TLC enumerates (mirrored ones included -- GEKKO's local solver never returns one)
    sols = tlc.generate(ctx, "GlbFloorMC", f"GlbFloor_sol_{tier}")
    sols.sort(key=canon)
    ctx.extra["solutions_from_tlc"] = len(sols)
    if quick:
        sols = rng.sample(sols, min(len(sols), 900))
    cases += [extract_case(r, EMB_ORDER[i % len(EMB_ORDER)], 4) for i, r in enumerate(sols)]
    ctx.extra["extract_replays"] = len(sols)
    nrnd = 70 if quick else 1500
    cases += [random_case(rng, EMB_ORDER[i % len(EMB_ORDER)]) for i in range(nrnd)]
    nwide = 40 if quick else 500
    cases += [wide_case(rng, EMB_ORDER[i % len(EMB_ORDER)]) for i in range(nwide)]
    ctx.extra["cases_wide_alpha1_motif"] = nwide
    ctx.extra["cases_random"] = nrnd
    decide(ctx, cases)
    ctx.extra["embeddings"] = EMB_ORDER
    ctx.assumptions += [
        "numeric optimiser: the specification is the contract of every step (which solutions Optimize may return, what "
        "Extract and Refine do with them), not a prediction of GEKKO's answer; optimality is not claimed",
        "runs in which the optimiser does not return (GEKKO 'Solution Not Found', an assertion while the allocation is "
        "rebuilt, a timeout) are outside the quantifier and counted in coverage.runs.no_result_by_cause",
        "solver tolerance 1e-3 on cell capacity and fixed-module ownership (ratios quantised x10^4); cells pulled back "
        "exactly to 1/1024 lattice unit, centres and hard rectangles rounded to it (tolerance 2 quanta)",
        "every state after an optimisation is judged as a possible return value (max_iter is any positive number)",
        "float dimension sampled by 7 origin-0 embeddings of the lattice; thresholds 0.5..0.95, alpha 0..1, max_iter 1..4, "
        "dies of 2x3 .. 4x4 grid squares with and without blockage / fixed block / hard (flippable) module",
    ]
    return ctx.finish(
        "model_checking",
        "one evaluation = one snapshot of a run (initial allocation / after an optimisation / after a refinement / "
        "returned value) judged by TLC against GlbFloor.tla; distinct non-trivial = distinct observed returned runs in "
        "which some cell is shared by several modules or a refinement took place",
        exhaustive=False)
