"""C07 -- The SAT layer encodes every posted constraint exactly.

Design level: TLC checks SatLayer (abstract `allowed` sets next to the specified CNF: isclause shortcut, ROBDDs built
into one store shared by all managers, one-directional Tseitin, quadratic / Heule at-most-one) -- invariant
Exact: Proj(cnf) = allowed for every manager after every history of the bounded universes -- and Robdd (Canonical,
NodeSem, TseitinExact).  The same runs print every maximal history (EMIT).

Binding: one history = one PROCESS.  Each runs in a freshly forked interpreter (pristine pseudobool store): real
SATManager objects are created, the constraints posted, and after every post the manager's REAL clause list is
projected onto the user's variables by solving it under unit assumptions for every assignment (pysat); solve(),
value() and evalexpr() are read as well.  TLC (SatTrace) recomputes the allowed sets from the posted constraints and
judges every observation.  Histories: the TLC-enumerated two- and three-post histories over one or several managers,
every wide single constraint again behind 2-3 earlier encodings in other managers (all orders, sampled in quick), and a
seeded random driver with larger constraints and interleaved managers.
Spellings of a constraint that TLC does not see (it judges the constraint as written): Ineq(..) vs. comparison
operators, negative terms SUBTRACTED (`ex - k*lit`, bare `ex - lit`), Term objects kept and SHARED between inequalities,
the same Ineq object posted twice or inspected (isclause / tostr) before it is posted, every coefficient and the bound
multiplied by a huge positive factor (2^54..2^62: same satisfying set).  "Cofactor histories" (an inequality, then the residual
inequality of one branch of its top decision in the same manager) come both from SatLayer!PostCofactor and from the
random driver.
Thorough tier only, no property claim: propagation strength (ac_stage) -- TLC states for which kinds unit
propagation on the specified CNF is complete, must-fail configurations exhibit the counterexamples, and pysat's
propagate() on the real CNF is judged by SatTrace; the outcome goes to coverage.arc_consistency.
"""
from __future__ import annotations

import itertools
import json
import random

from ..core import Ctx, MachineryError, digest
from ..forkpool import prepare_imports, run_cases
from .. import tlc

V7 = ["a", "b", "c", "d", "e", "f", "g"]
HUGE = [2 ** 60 - 1, 2 ** 54 - 1, 2 ** 62 + 1, 3 * 2 ** 57 - 1, 10 ** 18]   # positive scale factors (see run_process)
BLANK = {"kind": "", "lits": [], "head": ["", 1], "meth": "", "k": 0, "terms": [], "op": "", "bound": 0, "dec": 0}


def con(**kw):
    c = dict(BLANK)
    c.update(kw)
    return c


# --------------------------------------------------------------------------- real code (children only)
def _project(sm, names):
    """Assignment numbers (bit i = names[i]) that extend to a model of sm.clauses."""
    from pysat.solvers import Solver
    ids, cnf = {}, []
    for n in names:
        ids[n] = len(ids) + 1
    for cl in sm.clauses:
        if len(cl) == 0:
            return []
        cnf.append([(ids.setdefault(l.v, len(ids) + 1)) * (1 if l.s else -1) for l in cl])
    out = []
    with Solver(name="g3", bootstrap_with=cnf) as s:
        for a in range(1 << len(names)):
            assum = [(i + 1) if (a >> i) & 1 else -(i + 1) for i in range(len(names))]
            if s.solve(assumptions=assum):
                out.append(a)
    return out


def _propagate(sm, real_names, names, rho):
    """Unit propagation of the REAL clause list under the partial assignment rho (pysat propagate() on a fresh
    solver: no learnt clauses, pure BCP).  -> (conflict, [[var, value] ..] user literals newly implied).
    propagate() does not report what is already fixed at decision level 0 (unit clauses), so every clause gets
    a guard literal ~G and G is the first assumption: same propagation, nothing at level 0."""
    from pysat.solvers import Solver
    ids, cnf = {}, []
    for n in real_names:
        ids[n] = len(ids) + 1
    for cl in sm.clauses:
        if len(cl) == 0:
            return 1, []
        cnf.append([(ids.setdefault(l.v, len(ids) + 1)) * (1 if l.s else -1) for l in cl])
    val = {v: x for (v, x) in rho}
    assum = [(i + 1) if val[v] == 1 else -(i + 1) for i, v in enumerate(names) if val.get(v, 2) != 2]
    guard = len(ids) + 1
    with Solver(name="g3", bootstrap_with=[c + [-guard] for c in cnf]) as s:
        ok, lits = s.propagate(assumptions=[guard] + assum, phase_saving=0)
    if not ok:
        return 1, []
    out = []
    for x in lits:
        if abs(x) <= len(names) and x not in assum:
            out.append([names[abs(x) - 1], 1 if x > 0 else 0])
    return 0, sorted(out)


def _expr(nf, L):
    from tools.rect.pseudobool import Expr, Term
    e = Expr() + int(nf["c"])
    for (v, s, k) in nf["t"]:
        e = e + Term(L(v, s), k)
    return e


def run_process(case):
    """Replay one process history.  -> list of observations aligned with case['events'].
    (cases travel as JSON text: the forking parent stays small, a fork per history stays cheap)"""
    if isinstance(case, str):
        case = json.loads(case)
    from tools.rect.satmanager import SATManager
    from tools.rect.pseudobool import Expr, Term, Ineq
    import tools.rect.pseudobool as pb
    names = case["vars"]
    mgrs = []
    obs = []
    ineqs = {}      # Ineq objects by event index (an object may be posted again: events with same_as)
    shared = {}     # Term objects the "user program" keeps and reuses in several inequalities (events with share=1)
    for idx, e in enumerate(case["events"]):
        o = {"refused": 0, "proj": [], "sat": 0, "model": [], "negs": [], "evals": [], "store": [], "root": -1,
             "conflict": 0, "implied": []}
        if e["ev"] == "new":
            sm = SATManager()
            lits = {v: sm.newvar(v) for v in names}
            mgrs.append((sm, lits))
            obs.append(o)
            continue
        sm, lits = mgrs[e["m"] - 1]

        def L(v, s):
            return lits[v] if s else -lits[v]
        if e["ev"] == "post":
            c = e["c"]
            n0 = len(sm.clauses)
            try:
                if c["kind"] == "clause":
                    sm.add_clause([L(v, s) for (v, s) in c["lits"]])
                elif c["kind"] == "imply":
                    sm.imply([L(v, s) for (v, s) in c["lits"]], L(*c["head"]))
                elif c["kind"] == "amo":
                    if c["meth"] == "quadratic":
                        sm.quadraticencoding([L(v, s) for (v, s) in c["lits"]])
                    else:
                        sm.heuleencoding([L(v, s) for (v, s) in c["lits"]], c["k"])
                elif c["kind"] == "pb":
                    # spellings of the SAME constraint (TLC judges c as written):
                    #   scale  every coefficient and the bound times a huge positive factor (same satisfying set;
                    #          integer coefficients far beyond 2^53, where float arithmetic would round)
                    #   share  the Term objects are kept by the caller and reused in later inequalities
                    #   minus  a term with coefficient -k is SUBTRACTED: `ex - k*lit`, a bare `ex - lit` for k = 1
                    #   same_as  the very Ineq object built for an earlier post of the same constraint is posted again
                    #   inspect  the program looks at the inequality (isclause(), tostr()) before posting it
                    K = int(e.get("scale", 1))
                    if "same_as" in e and e["same_as"] in ineqs:
                        ineq = ineqs[e["same_as"]]
                    else:
                        ex = Expr()
                        for (v, s, k) in c["terms"]:
                            if e.get("share", 0):
                                if (v, s, k * K) not in shared:
                                    shared[(v, s, k * K)] = Term(L(v, s), k * K)
                                ex = ex + shared[(v, s, k * K)]
                            elif e.get("minus", 0) and k < 0:
                                ex = ex - (L(v, s) if k * K == -1 else Term(L(v, s), -k * K))
                            else:
                                ex = ex + Term(L(v, s), k * K)
                        op, b = c["op"], c["bound"] * K
                        if e.get("spell", 0) == 1:
                            ineq = Ineq(ex, Expr() + b, "==" if op == "=" else op)
                        else:
                            ineq = (ex >= b) if op == ">=" else (ex <= b) if op == "<=" else (ex > b) if op == ">" \
                                else (ex < b) if op == "<" else (ex == b)
                    ineqs[idx] = ineq
                    if e.get("inspect", 0):
                        ineq.isclause()
                        ineq.tostr()
                    sm.pseudoboolencoding(ineq, bool(c["dec"]))
                else:
                    raise ValueError(c["kind"])
            except Exception as ex_:  # a refusal
                o["refused"] = 1
                o["err"] = f"{type(ex_).__name__}: {ex_}"
            o["proj"] = _project(sm, [lits[v].v for v in names])
            o["store"] = [[str(t[0])[4:] if str(t[0]).startswith("def_") else str(t[0]), int(t[1]), int(t[2])] for t in pb.memory[2:]]
            if len(sm.clauses) > n0 and len(sm.clauses[-1]) == 1 and sm.clauses[-1][0].v.startswith("robdd_"):
                o["root"] = int(sm.clauses[-1][0].v[6:])
        elif e["ev"] == "prop":
            o["conflict"], o["implied"] = _propagate(sm, [lits[v].v for v in names], names, e["rho"])
        else:  # solve
            try:
                o["sat"] = int(bool(sm.solve()))
                if o["sat"]:
                    val = [sm.value(lits[v]) for v in names]
                    neg = [sm.value(-lits[v]) for v in names]
                    o["model"] = [-1 if x is None else int(x) for x in val]
                    o["negs"] = [-1 if x is None else int(x) for x in neg]
                    ev = [sm.evalexpr(_expr(nf, L)) for nf in e["probes"]]
                    o["evals"] = [-999999 if x is None else int(x) for x in ev]
            except Exception as ex_:
                o["sat"] = 2            # neither 0 nor 1: solve() itself failed
                o["err"] = f"{type(ex_).__name__}: {ex_}"
        obs.append(o)
    return obs


# --------------------------------------------------------------------------- cases
def reaches_diagram(c) -> bool:
    return c["kind"] == "pb" and c["op"] in (">=", "<=")


def lifecycle(events, rng):
    """Object-lifecycle spellings for a TLC history: a pseudo-Boolean constraint that was posted before (same record)
    is posted again as the SAME Ineq object; half of the inequalities are inspected (isclause / tostr) before they are
    posted; half are built with binary minus for their negative terms."""
    out, first = [], {}
    for i, e in enumerate(events):
        if e["ev"] == "post" and e["c"]["kind"] == "pb":
            e = dict(e)
            key = json.dumps(e["c"], sort_keys=True)
            if key in first:
                e["same_as"] = first[key]
            else:
                first[key] = i
                e["inspect"] = rng.randint(0, 1)
                e["minus"] = rng.randint(0, 1)
        out.append(e)
    return out


def with_solves(events, names, rng, only=None):
    """Append a solve (with evalexpr probes) for every manager (or only manager `only`) at the end of the history."""
    out = list(events)
    nm = sum(1 for e in events if e["ev"] == "new")
    for m in ([only] if only else range(1, nm + 1)):
        probes = []
        for _ in range(2):
            vs = rng.sample(names, rng.randint(0, min(3, len(names))))
            probes.append({"c": rng.randint(-3, 3), "t": [[v, rng.randint(0, 1), rng.randint(1, 4)] for v in vs]})
        out.append({"ev": "solve", "m": m, "c": dict(BLANK), "probes": probes})
    return out


def history_cases(singles, names, rng, tier):
    """A sample of the single constraints again as the LAST manager of a process in which 2-3 other managers
    encoded other inequalities before.  quick: 1000 diagram-reaching constraints, one order of the earlier
    encodings each; thorough: 4000 of them in EVERY order of the 2-3 earlier encodings, plus 1500 others."""
    pool = [c for c in singles if reaches_diagram(c) and len(c["terms"]) >= 2]
    if not pool:
        return []
    probes = rng.sample(pool, min(len(pool), 1000 if tier == "quick" else 4000))
    if tier == "thorough":
        rest = [c for c in singles if c["kind"] in ("pb", "amo") and not reaches_diagram(c)]
        probes += rng.sample(rest, min(len(rest), 1500))
    out = []
    for c in probes:
        hs = rng.sample(pool, min(len(pool), rng.choice([2, 3])))
        orders = list(itertools.permutations(hs))
        if tier == "quick" or not reaches_diagram(c):
            orders = [rng.choice(orders)]
        for order in orders:
            ev = []
            for i, h in enumerate(order):
                ev.append({"ev": "new", "m": i + 1, "c": dict(BLANK)})
                ev.append({"ev": "post", "m": i + 1, "c": h})
            m = len(order) + 1
            ev.append({"ev": "new", "m": m, "c": dict(BLANK)})
            ev.append({"ev": "post", "m": m, "c": c})
            out.append(json.dumps({"vars": names, "detail": 1, "events": with_solves(ev, names, rng, only=m), "src": "history"}))
    return out


def random_cases(rng: random.Random, n: int):
    """Larger than TLC enumerates: 4-7 variables, up to 7 terms, coefficients -9..12 (zero, negative, repeated
    variables), any bound, five operators, both constructions, at-most-one groups to 9 literals with repeats and
    complements, 1-3 managers with interleaved posts, solves in between, and "cofactor histories" (an inequality
    followed, in the same manager, by the residual inequality of one branch of its top decision), "shared-term
    histories" (two inequalities built from the same kept Term objects) and inequalities scaled by a huge factor."""
    cases = []
    for _ in range(n):
        names = V7[:rng.randint(4, 7)]
        lit = lambda: [rng.choice(names), rng.randint(0, 1)]
        nm = rng.randint(1, 3)
        ev = [{"ev": "new", "m": 1, "c": dict(BLANK)}]
        made = 1
        for _ in range(rng.randint(2, 7)):
            if made < nm and rng.random() < 0.4:
                made += 1
                ev.append({"ev": "new", "m": made, "c": dict(BLANK)})
            m = rng.randint(1, made)
            r = rng.random()
            if r < 0.12:
                c = con(kind="clause", lits=[lit() for _ in range(rng.randint(0, 4))])
            elif r < 0.22:
                c = con(kind="imply", lits=[lit() for _ in range(rng.randint(0, 3))], head=lit())
            elif r < 0.42:
                size = rng.randint(0, 9)
                if rng.random() < 0.7:
                    vs = rng.sample(names * 2, min(size, len(names)))
                    vs = list(dict.fromkeys(vs))
                    g = [[v, rng.randint(0, 1)] for v in vs]
                else:
                    g = [lit() for _ in range(size)]
                if rng.random() < 0.4:
                    c = con(kind="amo", meth="quadratic", lits=g)
                else:
                    c = con(kind="amo", meth="heule", k=rng.choice([2, 3, 3, 4, 5, 6]), lits=g)
            else:
                nt = rng.randint(0, 7)
                small = rng.random() < 0.5
                terms = [[rng.choice(names), rng.randint(0, 1), rng.randint(-2, 4) if small else rng.randint(-9, 12)] for _ in range(nt)]
                hi = sum(max(t[2], 0) for t in terms)
                lo = sum(min(t[2], 0) for t in terms)
                b = rng.randint(lo - 1, hi + 1)
                op = rng.choice([">=", ">=", ">=", "<=", "<=", ">", "<", "="])
                c = con(kind="pb", terms=terms, op=op, bound=b, dec=rng.randint(0, 1))
            e = {"ev": "post", "m": m, "c": c, "spell": rng.randint(0, 1), "share": rng.randint(0, 1),
                 "inspect": rng.randint(0, 1), "minus": rng.randint(0, 1)}
            if c["kind"] == "pb" and len(c["terms"]) <= 4 and all(abs(t[2]) <= 4 for t in c["terms"]) and rng.random() < 0.35:
                e["scale"] = rng.choice(HUGE)
            ev.append(e)
            if rng.random() < 0.3:
                # shared-term history: the program keeps its Term objects (negative coefficients, repeated variables)
                # and builds two different inequalities from them, posted to this or another manager
                t1 = [[rng.choice(names), rng.randint(0, 1), rng.choice([-3, -2, -1, 1, 2, 3])] for _ in range(rng.randint(2, 5))]
                lo, hi = sum(min(t[2], 0) for t in t1), sum(max(t[2], 0) for t in t1)
                t2 = list(t1) + ([[rng.choice(names), rng.randint(0, 1), rng.choice([-2, 1, 2])]] if rng.random() < 0.5 else [])
                rng.shuffle(t2)
                for tt in (t1, t2):
                    ev.append({"ev": "post", "m": rng.randint(1, made), "share": 1, "spell": rng.randint(0, 1),
                               "c": con(kind="pb", terms=tt, op=rng.choice([">=", ">=", "<="]), bound=rng.randint(lo, hi + 1),
                                        dec=rng.randint(0, 1))})
            if rng.random() < 0.3:
                # lifecycle history: one inequality object (strict ones included), inspected or not, posted twice
                vs = rng.sample(names, rng.randint(2, 4))
                tt = [[v, rng.randint(0, 1), rng.choice([1, 1, 2, 3, 4, -1, -2])] for v in vs]
                lo, hi = sum(min(t[2], 0) for t in tt), sum(max(t[2], 0) for t in tt)
                cc = con(kind="pb", terms=tt, op=rng.choice([">", ">", "<", ">=", "<="]), bound=rng.randint(lo - 1, hi), dec=rng.randint(0, 1))
                ev.append({"ev": "post", "m": m, "c": cc, "spell": rng.randint(0, 1), "inspect": rng.randint(0, 1), "minus": rng.randint(0, 1)})
                ev.append({"ev": "post", "m": rng.randint(1, made), "c": cc, "same_as": len(ev) - 1})
            if rng.random() < 0.3:
                # cofactor history: an inequality in normal shape (distinct variables, positive coefficients), then the
                # residual inequality of one branch of its top decision, same manager, same variable names
                vs = rng.sample(names, rng.randint(3, min(5, len(names))))
                t1 = [[v, rng.randint(0, 1), rng.randint(1, 6)] for v in vs]
                tot = sum(t[2] for t in t1)
                b1 = rng.randint(2, max(2, tot - 1))
                top = max(range(len(t1)), key=lambda i: (t1[i][2], -i))     # first maximal coefficient = top decision
                rest = [t for i, t in enumerate(t1) if i != top]
                branch = rng.randint(0, 1)
                b2 = b1 - t1[top][2] if (t1[top][1] == 1) == (branch == 1) else b1
                ev.append({"ev": "post", "m": m, "c": con(kind="pb", terms=t1, op=">=", bound=b1, dec=rng.randint(0, 1)), "spell": 0})
                ev.append({"ev": "post", "m": m, "c": con(kind="pb", terms=rest, op=">=", bound=b2, dec=rng.randint(0, 1)), "spell": 0})
            if rng.random() < 0.25:
                ev = with_solves(ev, names, rng, only=m)
        ev = with_solves(ev, names, rng)
        small_diagrams = all(sum(abs(t[2]) for t in e["c"]["terms"]) <= 14 and "scale" not in e for e in ev if e["ev"] == "post")
        cases.append({"vars": names, "detail": 1 if small_diagrams else 0, "events": ev, "src": "random"})
    return cases


# --------------------------------------------------------------------------- a small forking helper
class Runner:
    """A helper process forked while this process is still SMALL (FRAME imported, nothing generated yet).
    Every history needs its own freshly forked interpreter; a fork costs time proportional to the memory of the
    forking process, and the driver grows by hundreds of MB once TLC's histories are loaded.  So the per-history
    forks are done by this helper (forkpool.run_cases inside it), which only ever holds one batch.
    The helper imports tools.rect but never uses it: its children start from a pristine pseudobool store."""

    def __init__(self, ctx: Ctx):
        import os
        import pickle
        self.ctx, self.n = ctx, 0
        req_r, req_w = os.pipe()
        ack_r, ack_w = os.pipe()
        self.pid = os.fork()
        if self.pid == 0:
            os.close(req_w)
            os.close(ack_r)
            rc = 0
            try:
                with os.fdopen(req_r, "r") as rq, os.fdopen(ack_w, "w") as ak:
                    for line in rq:
                        fin, fout = line.strip().split("\t")
                        try:
                            with open(fin) as f:
                                batch = [x.rstrip("\n") for x in f]
                            res = run_cases(run_process, batch, nproc=16, fresh=True)
                            with open(fout, "wb") as f:
                                pickle.dump(("ok", res), f)
                        except BaseException as e:  # machinery problem: hand it to the driver
                            with open(fout, "wb") as f:
                                pickle.dump(("error", f"{type(e).__name__}: {e}"), f)
                        ak.write("done\n")
                        ak.flush()
            except BaseException:
                rc = 1
            os._exit(rc)
        os.close(req_r)
        os.close(ack_w)
        self.req = os.fdopen(req_w, "w")
        self.ack = os.fdopen(ack_r, "r")

    def run(self, texts: list[str]) -> list:
        import os
        import pickle
        self.n += 1
        fin, fout = self.ctx.path(f"batch-{self.n}.in"), self.ctx.path(f"batch-{self.n}.out")
        with open(fin, "w") as f:
            for t in texts:
                f.write(t + "\n")
        self.req.write(f"{fin}\t{fout}\n")
        self.req.flush()
        if self.ack.readline().strip() != "done":
            raise MachineryError("the forking helper died")
        with open(fout, "rb") as f:
            status, res = pickle.load(f)
        os.remove(fin)
        os.remove(fout)
        if status != "ok":
            raise MachineryError(f"forking helper: {res}")
        return res

    def close(self):
        import os
        try:
            self.req.close()
            os.waitpid(self.pid, 0)
        except Exception:
            pass


# --------------------------------------------------------------------------- decide
def features_of(e, case, idx):
    c = e["c"]
    return {"kind": c["kind"], "op": c["op"], "meth": c["meth"], "k": c["k"], "dec": c["dec"],
            "earlier_managers": sum(1 for x in case["events"][:idx] if x["ev"] == "new") - 1 if e["ev"] != "new" else 0,
            "event": e["ev"], "scaled": int("scale" in e), "shared_terms": int(e.get("share", 0)),
            "same_object_again": int("same_as" in e), "inspected": int(e.get("inspect", 0)), "binary_minus": int(e.get("minus", 0))}


BATCH = 25000


def decide(ctx: Ctx, runner: Runner, cases: list[str], cfg: str = "SatTrace") -> int:
    """cases: JSON texts of process histories.  cfg: SatTrace (truth tables over a..g) or SatTrace3 (a..c: cheaper
    for the many histories that use at most three variables).  Works batch by batch."""
    n = 0
    for i in range(0, len(cases), BATCH):
        n += _decide_batch(ctx, runner, cases[i:i + BATCH], cfg, first=(i == 0))
    return n


def _decide_batch(ctx: Ctx, runner: Runner, cases: list[str], cfg: str, first: bool) -> int:
    results = runner.run(cases)
    traces, owners = {}, {}
    for cj, (st, val) in zip(cases, results):
        c = json.loads(cj)
        if st != "ok":
            ctx.violation("no_result", {"case": c}, {"status": st}, {"kind": "no_result"})
            continue
        evs = []
        for e, o in zip(c["events"], val):
            ctx.count()
            evs.append({"ev": e["ev"], "m": e["m"], "c": e["c"], "refused": o["refused"], "proj": o["proj"], "sat": o["sat"],
                        "model": o["model"], "negs": o["negs"], "probes": e.get("probes", []), "evals": o["evals"],
                        "store": o["store"] if c["detail"] else [], "root": o["root"],
                        "rho": e.get("rho", []), "conflict": o["conflict"], "implied": o["implied"]})
        t = {"vars": c["vars"], "detail": c["detail"], "events": evs}
        key = digest(t)
        if key not in traces:
            t["id"] = key
            traces[key] = t
            owners[key] = {"case": cj, "errs": [o.get("err") for o in val]}
    verdicts = tlc.validate_traces(ctx, "SatTrace", cfg, list(traces.values()), chunk=(25000 if ctx.tier == "quick" else 6000))
    for key, v in verdicts.items():
        t, own = traces[key], owners[key]
        full = 1 << len(t["vars"])
        prev, nontrivial = {}, False
        for e in t["events"]:
            if e["ev"] == "post":
                before = prev.get(e["m"], full)
                if 0 < len(e["proj"]) < before:
                    nontrivial = True
                prev[e["m"]] = len(e["proj"])
        ctx.count(key, nontrivial=nontrivial, n=0)
        nprobes = sum(1 for e in t["events"] if e["ev"] == "prop")
        if nprobes:   # propagation-strength probes: information only (no property claim)
            tag = json.loads(own["case"]).get("tag", "?")
            rc = ctx.extra.setdefault("arc_consistency", {}).setdefault("real_code", {})
            d = rc.setdefault(tag, {"constraints": 0, "probes": 0, "undetected": 0, "incomplete": 0})
            d["constraints"] += 1
            d["probes"] += nprobes
            for (_l, what) in v.get("ac", []):
                d[what] += 1
        if v["fails"]:
            # a wrong encoding stays in the manager: only the first failing event of the process is reported
            first = min(l for (l, _c) in v["fails"])
            e = t["events"][first - 1]
            case = json.loads(own["case"])
            for (l, clause) in v["fails"]:
                if l != first:
                    continue
                ctx.violation(clause,
                              {"vars": case["vars"], "detail": case["detail"], "events": case["events"][:first]},
                              {"event": {"ev": e["ev"], "m": e["m"], "c": e["c"]}, "refused": e["refused"], "proj": e["proj"],
                               "sat": e["sat"], "model": e["model"], "evals": e["evals"], "error": own["errs"][first - 1],
                               "source": case.get("src")},
                              features_of(case["events"][first - 1], case, first - 1))
        first_fail = min((l for (l, _c) in v["fails"]), default=10 ** 9)
        for (l, what) in v["drift"]:
            if l < first_fail:
                ctx.model_drift(f"{what}: differs from the detailed model (Robdd/SatLayer); property clauses hold")
    for t in (list(traces.values())[:3] if first else []):
        ctx.sample({"vars": t["vars"], "events": [{k: e[k] for k in ("ev", "m", "c", "refused", "proj", "sat", "model")} for e in t["events"][:4]]})
    return len(traces)


def _mc(ctx, cfg, kinds):
    """One exhaustive TLC run: invariants of SatLayer + every maximal history printed.
    (TLC's -coverage is not used here: on the big constant universes of these models it needs > 8 GB and
    > 20 min; non-vacuity is established instead from the printed histories: every constraint kind of the
    configuration must have been posted.)"""
    res = tlc.model_check(ctx, "SatLayer", cfg, coverage=False, timeout=3000)
    hs = [p for p in res["printed"] if isinstance(p, dict) and "events" in p]
    seen = {e["c"]["kind"] for h in hs for e in h["events"] if e["ev"] == "post"}
    if not hs or not set(kinds) <= seen:
        raise MachineryError(f"vacuous generation: {cfg} printed {len(hs)} histories with kinds {sorted(seen)}")
    return hs


AC_HOLD_KINDS = ("clause", "imply", "amo_quadratic", "amo_heule", "pb_clause")


def _counterexample(stdout: str) -> str:
    i = stdout.rfind("State ")
    txt = " ".join(stdout[i:].split()) if i >= 0 else ""
    for key in ("/\\ hist = ", "/\\ lastq = "):
        j = txt.find(key)
        if j >= 0:
            k = txt.find(" /\\ ", j + 4)
            return txt[j:k if k > 0 else j + 1500][:1500]
    return txt[:600]


def ac_stage(ctx: Ctx, runner: Runner) -> None:
    """Extension (thorough only, no property claim): propagation strength of the encodings.
    TLC states for which constraint kinds unit propagation on the specified CNF is complete; the must-fail
    configurations have to produce a counterexample; the real CNF is probed with pysat's propagate() under every
    TLC-generated partial assignment and SatTrace judges the implied literals."""
    ac = ctx.extra.setdefault("arc_consistency", {})
    ac["universe"] = ("one constraint per manager; 3 user variables (5 for at-most-one), every partial assignment; "
                      "clauses/implications <= 2 literals, at-most-one groups to 5 (Heule k=3,4), inequalities "
                      "k1*l1 + k2*l2 + k3*l3 >= b with coefficients 1..3, either polarity, b in 1..8, both constructions")
    model = ac.setdefault("model", {})
    for spec, cfg, what in [("Robdd", "Robdd_up_sound", "UnitPropagationSound, both constructions"),
                            ("Robdd", "Robdd_up_plain_detects", "UnitPropagationDetects, plain construction"),
                            ("SatLayer", "SatLayer_ac_plain_detects", "ProbeSound + ProbeDetectsInconsistency, kind pb_plain")]:
        res = tlc.model_check(ctx, spec, cfg, coverage=False)
        model[cfg] = {"expected": "holds", "result": "holds", "invariants": what, "states": res["distinct"]}
    for spec, cfg, inv in [("Robdd", "Robdd_up_plain_complete_mustfail", "UnitPropagationComplete"),
                           ("Robdd", "Robdd_up_dec_detects_mustfail", "UnitPropagationDetects"),
                           ("SatLayer", "SatLayer_ac_plain_complete_mustfail", "ProbeArcConsistent"),
                           ("SatLayer", "SatLayer_ac_dec_detects_mustfail", "ProbeDetectsInconsistency")]:
        res = tlc.run_tlc(ctx, spec, cfg, expect_ok=False, tag="mustfail")
        if f"Invariant {inv} is violated" not in res["stdout"]:
            raise MachineryError(f"{cfg}: TLC was expected to refute {inv} and did not")
        model[cfg] = {"expected": "violated", "result": "violated", "invariants": inv,
                      "counterexample": _counterexample(res["stdout"])}
    cases = []
    for cfg, names in [("SatLayer_ac_hold", V7[:3]), ("SatLayer_ac_amo", V7[:5])]:
        res = tlc.model_check(ctx, "SatLayer", cfg, coverage=False)
        model[cfg] = {"expected": "holds", "result": "holds", "states": res["distinct"],
                      "invariants": "ProbeSound, ProbeDetectsInconsistency, ProbeArcConsistent for kinds " + ", ".join(AC_HOLD_KINDS)}
        groups: dict[str, dict] = {}
        for h in res["printed"]:
            if not (isinstance(h, dict) and "events" in h and h["events"][-1]["ev"] == "prop"):
                continue
            pre, pe = h["events"][:-1], h["events"][-1]
            g = groups.setdefault(json.dumps(pre, sort_keys=True), {"pre": pre, "tag": pe["tag"], "props": []})
            g["props"].append({"ev": "prop", "m": pe["m"], "c": dict(BLANK), "rho": pe["rho"]})
        if not groups:
            raise MachineryError(f"vacuous generation: {cfg} printed no propagation probes")
        for g in groups.values():
            cases.append(json.dumps({"vars": names, "detail": 1, "tag": g["tag"], "src": "ac",
                                     "events": g["pre"] + sorted(g["props"], key=lambda x: json.dumps(x["rho"]))}))
        del res
    decide(ctx, runner, [c for c in cases if len(json.loads(c)["vars"]) <= 3], "SatTrace3")
    decide(ctx, runner, [c for c in cases if len(json.loads(c)["vars"]) > 3], "SatTrace")
    rc = ac.get("real_code", {})
    for tag in AC_HOLD_KINDS:
        d = rc.get(tag)
        if d and (d["undetected"] or d["incomplete"]):
            ctx.model_drift(f"propagation on the real CNF is weaker than the model states for kind {tag}")
    if rc.get("pb_plain", {}).get("undetected"):
        ctx.model_drift("propagation on the real CNF misses a conflict for kind pb_plain (the model says it never does)")
    ac["summary"] = ("complete (arc-consistent) by unit propagation: " + ", ".join(AC_HOLD_KINDS) + "; "
                     "pb_plain: every partial assignment without solution is refuted by propagation, but entailed literals "
                     "are not all derived (one-directional Tseitin); pb_decomposition: not even every conflict is found")


def run(ctx: Ctx) -> int:
    prepare_imports()
    import tools.rect.satmanager  # noqa: F401  (imported here, never used in this process: the store stays pristine)
    runner = Runner(ctx)          # forked now, while this process is small
    try:
        return _run(ctx, runner)
    finally:
        runner.close()


def _run(ctx: Ctx, runner: Runner) -> int:
    if ctx.replay:
        rec = json.load(open(ctx.replay))
        c = rec["case"]
        decide(ctx, runner, [json.dumps({"vars": c["vars"], "detail": c.get("detail", 0), "events": c["events"], "src": "replay"})])
        return ctx.finish("model_checking", "replay of one recorded process history")
    tier = ctx.tier
    rng = random.Random(ctx.seed * 1000003 + 7)
    # design level
    tlc.model_check(ctx, "Robdd", f"Robdd_mc_{tier}", coverage=False)
    allk = ("clause", "imply", "amo", "pb")
    cfgs = [("wide", allk), ("amo", ("amo",)), ("seq", ("amo", "pb"))]
    if tier == "thorough":
        cfgs = [("wide", allk), ("amo", ("amo",)), ("seq", ("clause", "amo", "pb")), ("amo2", ("amo",)), ("seq3", ("pb",))]
    small, big, singles, wide_names = [], [], [], []
    for name, kinds in cfgs:
        hs = _mc(ctx, f"SatLayer_{tier}_{name}", kinds)
        names = (V7[:6] if tier == "quick" else V7) if name.startswith("amo") else V7[:2] if (name, tier) == ("wide", "quick") else V7[:3]
        for h in hs:
            (big if len(names) > 3 else small).append(
                json.dumps({"vars": names, "detail": 1, "events": with_solves(lifecycle(h["events"], rng), names, rng), "src": name}))
        if name == "wide":
            singles, wide_names = [h["events"][-1]["c"] for h in hs], names
        if name == "seq":
            # the same histories with every inequality scaled by a huge factor (coefficients ~2^54..2^60: beyond what
            # TLC's integers or a float can hold; same satisfying sets, TLC judges the unscaled constraints)
            dec = [h for h in hs if any(e["ev"] == "post" and e["c"]["kind"] == "pb" and e["c"]["dec"] == 1 for e in h["events"])]
            for i, h in enumerate(rng.sample(dec, min(len(dec), 1200 if tier == "quick" else 6000))):
                evs = [dict(e, scale=HUGE[i % 2]) if e["ev"] == "post" and e["c"]["kind"] == "pb" else e for e in h["events"]]
                small.append(json.dumps({"vars": names, "detail": 0, "events": with_solves(evs, names, rng), "src": "seq_scaled"}))
        del hs
    n_tlc = len(small) + len(big)
    hist = history_cases(singles, wide_names, rng, tier)
    rnd = random_cases(rng, 1200 if tier == "quick" else 12000)
    ntr = decide(ctx, runner, small + hist, "SatTrace3")
    ntr += decide(ctx, runner, big + [json.dumps(c) for c in rnd], "SatTrace")
    if tier == "thorough":
        ac_stage(ctx, runner)
    ctx.extra["cases_from_tlc"] = n_tlc
    ctx.extra["history_cases"] = len(hist)
    ctx.extra["random_cases"] = len(rnd)
    ctx.extra["distinct_traces"] = ntr
    ctx.assumptions += [
        "user variables are created with SATManager.newvar (the documented way; solve() cannot translate other literals) "
        "and are not named like the layer's own auxiliary variables (robdd_<n>, aux_<n>)",
        "refusal = the posting call raises; only pseudo-Boolean =, >, < and Heule with k < 3 may be refused "
        "(what the code documents as not implemented); a refused constraint must leave the manager unchanged",
        "projection of the real CNF: SATManager.clauses solved with pysat (glucose3) under unit assumptions for each of the "
        "<= 128 assignments of the user variables; TLC never sees the CNF, only the projected set",
        "each history runs in a freshly forked interpreter whose parent imported tools.rect but never used it",
    ]
    return ctx.finish(
        "model_checking",
        "one evaluation = one event (post / solve / new manager) of a process history judged by TLC; distinct = distinct "
        "observed process traces; non-trivial = traces in which some post leaves a proper, non-empty subset of the "
        "assignments (the constraint really restricts and is satisfiable)",
        exhaustive=False)
