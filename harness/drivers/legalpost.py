"""LEGALPOST -- the legaliser's rectangle post-processing (turn_off_rects / fuse_rects) keeps the floorplan.

Grows the C09 specification: LegalPost.tla EXTENDS Legal.tla with the two loops ModelWrapper.solve runs before
every solver call (turn_off_rects(0.1), fuse_rects(0.05)) transcribed as value-level operators, and their contract
(hardKept, trunkKept, covered, areaWithin, stillAttached, noOverlap).  TLC decides on every legal configuration of
the bounded universe which clauses the loops guarantee; the others are documented by must-fail configurations.
For every netlist x embedding the real `tools.legalfloor` Model is built (as in C09), every legal configuration is
assigned to its variables, the two real methods are called, and the result (rectangles pulled back to the lattice,
enable flags) is judged by TLC (LegalPostTrace) against the contract and compared with the transcribed loops.
"""
from __future__ import annotations

import json
import os
import time

from ..core import Ctx, MachineryError, digest
from ..forkpool import prepare_imports, run_cases
from ..lattice import OffLattice
from .. import tlc
from .c09 import FLOATS, _observe, random_case, usable

SPEC = "LegalPost"
TRACE = "LegalPostTrace"
OFF, FUSE = 0.1, 0.05     # ModelWrapper.solve: self.turn_off_rects(0.1); self.fuse_rects()  (default perc = 0.05)
CLAUSES = ["hardKept", "trunkKept", "covered", "areaWithin", "stillAttached", "noOverlap"]


def _probe(model, index, emb, ev):
    """The configuration has been assigned: run the two post-processing methods as ModelWrapper.solve does."""
    for mm in model.M:
        mm.enable = [True] * len(mm.enable)
    try:
        model.gekko.turn_off_rects(OFF)
        model.gekko.fuse_rects(FUSE)
    except Exception as e:  # noqa: BLE001
        return {"exc": f"{type(e).__name__}: {e}"}
    nmods = len(index)
    after, en = [None] * nmods, [None] * nmods
    for m, (sm, idx) in enumerate(index):
        mm = model.M[m]
        rects = [None] * len(idx)
        enabled = []
        for j, i in enumerate(idx):
            try:
                rects[i] = emb.back_rect(mm.x[j].evaluate(), mm.y[j].evaluate(), mm.w[j].evaluate(), mm.h[j].evaluate())
            except OffLattice as e:
                return {"off": str(e)}
            if mm.enable[j]:
                enabled.append(i + 1)
        after[sm], en[sm] = rects, sorted(enabled)
    return {"after": after, "en": en}


def run_case(case: dict) -> dict:
    return {f"{en}/{order}": _observe(case, en, order, probe=_probe) for en, order in case["variants"]}


def variants_for(k: int, w: dict, nmods: int, tier: str) -> list[list[str]]:
    fl = [e for e in FLOATS if usable(e, w, nmods)]
    order = "fwd" if (k // 2) % 2 == 0 else "rev"
    if tier == "quick":
        return [["int", order]] if k % 2 == 0 else [[fl[(k // 2) % len(fl)], order]]
    return [["int", order], [fl[k % len(fl)], "rev" if order == "fwd" else "fwd"]]


def _phase(ctx: Ctx, name: str, t0: float):
    ctx.extra.setdefault("phase_s", {})[name] = round(time.time() - t0, 1)


def _ov(a, b):
    return min(a[2], b[2]) > max(a[0], b[0]) and min(a[3], b[3]) > max(a[1], b[1])


def features_of(net: list[dict], ev: dict, clause: str) -> dict:
    """Bookkeeping for the known-findings matcher (never used for the judgement).
    hard_touched: some hard/fixed module was changed.  culprit: the kind(s) of the modules whose GROWN trunk (a branch
    was fused into it) now overlaps an enabled rectangle / leaves the die (noOverlap) or has an enabled branch that is
    no longer attached at its edge within its extent (stillAttached): soft | hard | both | none."""
    after, en, cfg = ev["after"], ev["en"], ev["cfg"]
    hard = [md["kind"] != "soft" for md in net]
    hard_touched = any(h and (len(en[m]) != len(net[m]["rects"]) or after[m] != cfg[m]) for m, h in enumerate(hard))
    culprits = set()
    for m, md in enumerate(net):
        t = after[m][0]
        if t == cfg[m][0] or 1 not in en[m]:
            continue
        bad = False
        if clause == "noOverlap":
            for k in range(len(net)):
                for i in en[k]:
                    if (k, i) != (m, 1) and _ov(t, after[k][i - 1]):
                        bad = True
        elif clause == "stillAttached":
            for i in en[m]:
                if i == 1:
                    continue
                b, s = after[m][i - 1], md["roles"][i - 1]
                att = {"N": b[1] == t[3], "S": b[3] == t[1], "E": b[0] == t[2], "W": b[2] == t[0]}[s]
                ext = (t[0] <= b[0] and b[2] <= t[2]) if s in "NS" else (t[1] <= b[1] and b[3] <= t[3])
                bad = bad or not (att and ext)
        if bad:
            culprits.add("hard" if hard[m] else "soft")
    culprit = "both" if len(culprits) == 2 else (culprits.pop() if culprits else "none")
    # a rectangle that is NOT enabled has grown: it was the partner of a fusion although turn_off_rects (or an earlier
    # fusion) had already disabled it, so what was fused into it is lost
    lost = any(i + 1 not in en[m] and after[m][i] != cfg[m][i] for m in range(len(net)) for i in range(len(cfg[m])))
    return {"clause": clause, "hard_touched": hard_touched, "culprit": culprit, "disabled_partner_grew": lost,
            "modules": min(len(net), 2)}


def decide(ctx: Ctx, cases: list[dict], source: str) -> int:
    prepare_imports()
    import frame.netlist.netlist  # noqa: F401
    import tools.legalfloor.legalfloor  # noqa: F401
    t0 = time.time()
    results = run_cases(run_case, cases, nproc=int(os.environ.get("VERIF_NPROC", "16")), case_timeout=600)
    _phase(ctx, f"run_{source}", t0)
    traces, owners = {}, {}
    for c, (st, val) in zip(cases, results):
        base = {"w": c["w"], "net": c["net"], "variants": c["variants"]}
        if st != "ok":
            ctx.violation("no_result", {**base, "cfg": c["events"][0]["cfg"]}, {"status": st}, {"clause": "no_result"})
            continue
        for vname, o in val.items():
            if "exc" in o:
                ctx.violation("raises", {**base, "cfg": c["events"][0]["cfg"], "variants": [vname.split("/")]}, o, {"clause": "raises"})
                continue
            evs = []
            for ev, ob in zip(c["events"], o["obs"]):
                ctx.count()
                if "exc" in ob or "off" in ob:
                    ctx.violation("raises" if "exc" in ob else "off_lattice", {**base, "cfg": ev["cfg"], "variants": [vname.split("/")]},
                                  ob, {"clause": "raises" if "exc" in ob else "off_lattice"})
                    continue
                evs.append({"cfg": ev["cfg"], "after": ob["after"], "en": ob["en"]})
            t = {"w": c["w"], "net": c["net"], "events": evs}
            key = digest(t)
            if key not in traces:
                t["id"] = key
                traces[key] = t
                owners[key] = []
            owners[key].append(vname)
    t0 = time.time()
    verdicts = tlc.validate_traces(ctx, TRACE, TRACE, list(traces.values()), chunk=1500)
    _phase(ctx, f"judge_{source}", t0)
    outq = 0
    for key, v in verdicts.items():
        t = traces[key]
        out = set(v["outq"])
        outq += len(out)
        for l, ev in enumerate(t["events"], start=1):
            if l not in out:
                changed = any(len(e) != len(r) for e, r in zip(ev["en"], ev["cfg"])) or ev["after"] != ev["cfg"]
                ctx.count(digest([t["w"], t["net"], ev["cfg"]]), nontrivial=changed, n=0)
        for (l, clause) in v["fails"]:
            ev = t["events"][l - 1]
            ctx.violation(clause, {"w": t["w"], "net": t["net"], "cfg": ev["cfg"], "variants": [x.split("/") for x in owners[key]]},
                          {"after": ev["after"], "enabled": ev["en"]}, features_of(t["net"], ev, clause))
        failed = {l for (l, _c) in v["fails"]}
        for (l, _what) in v["drift"]:
            if l not in failed:
                ctx.model_drift("result of turn_off_rects / fuse_rects differs from the transcribed loops (contract holds)")
    ctx.extra[f"outside_quantifier_{source}"] = ctx.extra.get(f"outside_quantifier_{source}", 0) + outq
    for t in list(traces.values())[:2]:
        ctx.sample({"trace": {"w": t["w"], "net": t["net"], "events": t["events"][:2]}, "variants": owners[t["id"]], "source": source})
    return len(traces)


def run(ctx: Ctx) -> int:
    tier = ctx.tier
    if ctx.replay:
        c = json.load(open(ctx.replay))["case"]
        decide(ctx, [{"w": c["w"], "net": c["net"], "variants": c["variants"], "events": [{"cfg": c["cfg"]}]}], "replay")
        return ctx.finish("model_checking", "replay of one recorded configuration")
    tlc.model_check(ctx, SPEC, f"{SPEC}_mc_{tier}", vacuity_ignore=("PEmit", "PerturbAny", "Wild", "EmitNet"))
    # what the loops do NOT guarantee, and what the code does to hard modules today: TLC must exhibit both
    for cfg, inv in ((f"{SPEC}_mc_fails", "InvNoOverlap"), (f"{SPEC}_mc_fails2", "InvStillAttached"), (f"{SPEC}_mc_fails3", "InvCovered"),
                     (f"{SPEC}_mc_coded", "InvHardKept")):
        res = tlc.run_tlc(ctx, SPEC, cfg, expect_ok=False, tag="mc-must-fail")
        if res["ok"] or f"{inv} is violated" not in res["stdout"]:
            raise MachineryError(f"{cfg}: expected a counterexample to {inv}")
    cases = tlc.generate(ctx, SPEC, f"{SPEC}_gen_{tier}")
    for k, c in enumerate(cases):
        c["variants"] = variants_for(k, c["w"], len(c["net"]), tier)
    ntr = decide(ctx, cases, "tlc")
    # random larger floorplans (the C09 generator); only their legal configurations are judged (TLC decides which)
    import random
    rng = random.Random(ctx.seed * 1000003 + 99)
    rcases = []
    want = 100 if tier == "quick" else 1000
    while len(rcases) < want:
        c = random_case(rng)
        if c is None:
            continue
        c["variants"] = variants_for(len(rcases), c["w"], len(c["net"]), tier)
        rcases.append(c)
    ntr += decide(ctx, rcases, "random")
    ctx.extra["cases_from_tlc"] = len(cases)
    ctx.extra["cases_random"] = len(rcases)
    ctx.extra["distinct_traces"] = ntr
    ctx.extra["embeddings"] = ["int"] + FLOATS
    ctx.assumptions += [
        "thresholds as ModelWrapper.solve uses them: turn_off_rects(0.1), fuse_rects(0.05); decisions that sit exactly on a "
        "threshold are not compared with the model (float rounding under inexact embeddings); the contract is judged on the observed result",
        "the methods are called on a built Model whose variables hold a legal configuration (no solver run); starting points that "
        "are not legal are not judged",
        "embeddings and model construction as in C09",
    ]
    return ctx.finish(
        "model_checking",
        "TLC enumerates every netlist of the bounded universe (ratio limit 3, 10x10 die, 4x5 and 1x1 trunks, <= 2 modules, <= 2 branches) "
        "with its original configuration and its legal single-edit neighbours; evaluations = (netlist, embedding, configuration) "
        "post-processing runs on the real model; distinct non-trivial = distinct judged configurations that the post-processing changed",
        exhaustive=False)
