"""PIPELINE -- the stage flow of tools/all/all.py (netgen -> spectral -> force -> glbfloor) as a system.

TLC (Pipeline) model-checks the hand-off contract of the flow on the documents in flight (netlist, die, allocation):
every document a stage may write satisfies the precondition of the stage that reads it next, the design (module set,
kinds, areas, nets) and the fixed parts are the same in every document, movable modules are placed inside the die,
and glbfloor's allocation fits its netlist.  It also emits the flows: netgen topology x size x die x user edit.

Every flow is executed with the REAL stage entry points (tools.netgen.netgen.main, tools.spectral.spectral.main,
tools.force.force.main, tools.glbfloor.glbfloor.main) on files in the scratch directory, each stage reading what the
previous one wrote, with the process-wide state reset between stages (they are separate processes in all.py).
After every stage the written files are read back with the reader the next stage uses and pulled back to abstract
documents of integers and names; PipelineTrace replays them through Pipeline's own actions and judges every stage.
`frame rect` / `frame legalfloor` are NOT executed: tools/rect/rect.py loads a Windows DLL (GreedyManager) and cannot
run on this platform; the flow stops after glbfloor (what rect would be handed is still checked).
Stages in which GEKKO reports that it found no solution are counted, not reported.
"""
from __future__ import annotations

import json
import math
import os
import random
import shutil

from ..core import Ctx, MachineryError, digest
from ..forkpool import prepare_imports, run_cases
from .. import tlc

UNIT = 1_000_000     # lengths in 1e-6 of the larger die side
CLAMP = 1_500_000_000
NOALLOC = {"cells": [], "shares": []}


# ------------------------------------------------------------------------------------------ reading documents back
def _u(v, S):
    if isinstance(v, bool) or not isinstance(v, (int, float)) or not math.isfinite(v):
        return CLAMP
    return max(-CLAMP, min(CLAMP, round(v / S * UNIT)))


def _kind(m) -> str:
    if m.is_terminal:
        return "fpin" if m.is_fixed else "pin"
    if m.is_fixed:
        return "block"
    return "hard" if m.is_hard else "soft"


def read_netlist(path, S):
    """The document as the next stage's reader (frame.netlist.Netlist) sees it, and its raw `center` fields."""
    from frame.geometry.geometry import Rectangle
    from frame.netlist.netlist import Netlist
    from ruamel.yaml import YAML
    Rectangle.undefine_epsilon()
    nl = Netlist(path)
    mods = []
    for m in nl.modules:
        c = m.center
        mods.append([m.name, _kind(m), round(m.area() * 1000), int(c is not None),
                     _u(c.x, S) if c is not None else 0, _u(c.y, S) if c is not None else 0])
    nets = [[round(e.weight * 1000), [b.name for b in e.modules]] for e in nl.edges]
    tree = YAML(typ="safe").load(open(path))
    raw = []
    for name, info in (tree.get("Modules") or {}).items():
        c = info.get("center") if isinstance(info, dict) else None
        raw.append([name, int(c is not None), _u(c[0], S) if c else 0, _u(c[1], S) if c else 0])
    return {"mods": mods, "nets": nets}, raw, nl


def read_allocation(path, S, nl):
    from frame.allocation.allocation import Allocation
    a = Allocation(path)
    cells, shares = [], []
    for i, al in enumerate(a.allocations):
        bb = al.rect.bounding_box
        cells.append([_u(bb.ll.x, S), _u(bb.ll.y, S), _u(bb.ur.x, S), _u(bb.ur.y, S)])
        for name, ratio in al.alloc.items():
            shares.append([i + 1, name, round(ratio * 1000)])
    return {"cells": cells, "shares": shares}, int(bool(a.check_compatible(nl)))


def _no_solution(e: BaseException) -> bool:
    s = f"{type(e).__name__} {e}"
    return "Solution Not Found" in s or "@error" in s


# ------------------------------------------------------------------------------------------ one flow
def run_flow(case):
    """-> trace dict (without id).  Every stage runs in this (forked) process on files in case['dir']."""
    from frame.geometry.geometry import Rectangle
    from ruamel.yaml import YAML
    import tools.netgen.netgen as netgen
    import tools.spectral.spectral as spectral
    import tools.force.force as force
    import tools.glbfloor.glbfloor as glbfloor

    d = case["dir"]
    os.makedirs(d, exist_ok=True)
    cwd = os.getcwd()
    os.chdir(d)
    try:
        W, H = case["die"]
        S = float(max(W, H))
        die_arg = f"{W}x{H}"
        t, s1, s2 = case["flow"]
        events = []
        trace = {"flow": case["flow"], "edit": case["edit"], "die": [_u(W, S), _u(H, S), round(S * 1000)],
                 "barea": round(W / 4 * H / 4 * 1000), "events": events, "params": json.dumps(case["params"], sort_keys=True)}

        def stage(name, fn, out_net, out_alloc=None):
            """run one stage as a separate process would: fresh tolerances, own seed; then read back what it wrote"""
            Rectangle.undefine_epsilon()
            random.seed(case["seed"] * 7919 + len(events))
            ev = {"stage": name, "status": "ok", "accepted": 1, "net": {"mods": [], "nets": []}, "raw": [],
                  "alloc": NOALLOC, "compat": 1, "note": "", "where": ""}
            events.append(ev)
            try:
                fn()
            except BaseException as e:  # noqa: BLE001  (SystemExit from argparse included)
                if type(e).__name__ == "CaseTimeout":
                    raise
                ev["status"] = "nosolution" if _no_solution(e) else "raised"
                ev["note"] = f"{type(e).__name__}: {str(e)[:300]}"
                import traceback
                ev["where"] = ">".join(fr.name for fr in traceback.extract_tb(e.__traceback__)[-3:])   # innermost 3 functions
                return False
            try:
                ev["net"], ev["raw"], nl = read_netlist(out_net, S)
                if out_alloc:
                    ev["alloc"], ev["compat"] = read_allocation(out_alloc, S, nl)
            except BaseException as e:  # noqa: BLE001
                ev["accepted"] = 0
                ev["note"] = f"reader: {type(e).__name__}: {str(e)[:300]}"
                return False
            return True

        size = [str(s1)] + ([str(s2)] if t == "grid" else [])
        if not stage("netgen", lambda: netgen.main("netgen", ["--type", t, "--size", *size, "-o", "n.yml"]), "n.yml"):
            return trace

        def user_edit():
            y = YAML(typ="safe")
            doc = y.load(open("n.yml"))
            first, last = list(doc["Modules"])[0], list(doc["Modules"])[-1]
            e = case["edit"]
            if "fpin" in e:
                doc["Modules"]["P0"] = {"terminal": True, "fixed": True, "center": [0.0, H / 2]}
            if "block" in e:
                doc["Modules"]["B0"] = {"fixed": True, "rectangles": [[W - W / 8, H - H / 8, W / 4, H / 4]]}
            if e == "pin":
                doc["Modules"]["T0"] = {"terminal": True, "center": [float(W), 0.0]}
            if "fpin" in e:
                doc["Nets"].append(["P0", first])
            if "block" in e:
                doc["Nets"].append(["B0", last, 2.0])
            if e == "pin":
                doc["Nets"].append(["T0", first])
            out = YAML()
            out.default_flow_style = False
            with open("u.yml", "w") as f:
                out.dump(doc, f)
        if not stage("user", user_edit, "u.yml"):
            return trace

        p = case["params"]
        if not stage("spectral", lambda: spectral.main("spectral", ["u.yml", "--die", die_arg, "--outfile", "s.yml",
                                                                    "--bestof", str(p["bestof"])]), "s.yml"):
            return trace
        if not stage("force", lambda: force.main("force", ["--netlist", "s.yml", "--die", die_arg,
                                                           "--out-netlist", "f.yml"]), "f.yml"):
            return trace
        gargs = ["--netlist", "f.yml", "--die", die_arg, "--out-netlist", "g.yml", "--out-allocation", "a.yml",
                 "--max-iter", str(p["max_iter"]), "--alpha", str(p["alpha"]), "--threshold", str(p["threshold"])]
        if p.get("grid"):
            gargs += ["--grid", p["grid"]]
        else:
            gargs += ["--aspect-ratio", str(p["aspect_ratio"]), "--num-rectangles", str(p["num_rectangles"])]
        stage("glbfloor", lambda: glbfloor.main("glbfloor", gargs), "g.yml", "a.yml")
        return trace
    finally:
        os.chdir(cwd)
        shutil.rmtree(d, ignore_errors=True)


# ------------------------------------------------------------------------------------------ cases
def make_case(g, i: int, seed: int, root: str) -> dict:
    """A flow emitted by TLC + the stage parameters (rotating with the index, reproducible from the seed)."""
    rng = random.Random(seed * 1000003 + i)
    has_fixed_block = "block" in g["edit"]
    params = {"bestof": [1, 3, 5][i % 3], "max_iter": [1, 2, 3][(i // 3) % 3], "alpha": [0.3, 0.6][(i // 2) % 2],
              "threshold": [0.95, 0.8][(i // 5) % 2], "aspect_ratio": [2, 1.5][(i // 7) % 2],
              "num_rectangles": [4, 8, 16][(i // 2) % 3]}
    if not has_fixed_block and i % 4 == 3:
        params["grid"] = ["2x2", "3x3", "4x4", "2x4"][(i // 4) % 4]
    return {"flow": g["flow"], "edit": g["edit"], "die": g["die"], "params": params, "seed": rng.randrange(1 << 30),
            "dir": os.path.join(root, f"flow{i}")}


def _features(t, ev, clause):
    """What identifies a failure for the known-finding matcher: the stage, the clause and the cause.
    clause, stage, status            which clause failed after / in which stage, and how the stage ended
    exception, where                 (status raised) exception class and the innermost three functions of its traceback
    terminals                        "none" | "fixed" | "movable": the terminals of the user's part of the netlist
    user_parts                       kinds of the user's modules, e.g. "block+fpin"
    threshold                        (glbfloor) the --threshold parameter
    fixed_moved, shift               (fixed_unmoved) kinds of the fixed modules that moved; "small" = every shift < 2 % of the die side
    soft_centres                     (glbfloor) "unchanged_from_input" iff the next reader finds every soft module exactly where the
                                     input netlist had it (the optimised centres are not what the written netlist conveys)
    alloc_diff                       (alloc_compatible) "missing_modules" | "extra_modules" | "both" | "none"
    """
    events = t["events"]
    l = events.index(ev)
    user = next((e for e in events if e["stage"] == "user"), None)
    kinds = sorted({m[1] for m in user["net"]["mods"]} - {"soft"}) if user else []
    f = {"clause": clause, "stage": ev["stage"], "status": ev["status"],
         "exception": ev.get("note", "").split(":")[0] if ev["status"] == "raised" else "",
         "where": ev.get("where", ""),
         "terminals": "movable" if "pin" in kinds else "fixed" if "fpin" in kinds else "none",
         "user_parts": "+".join(kinds) or "none",
         "threshold": str(json.loads(t["params"])["threshold"]) if ev["stage"] == "glbfloor" else ""}
    prev = events[l - 1]["net"]["mods"] if l >= 1 else []
    cur = ev["net"]["mods"]
    if clause == "fixed_unmoved" and user:
        base = {m[0]: m for m in user["net"]["mods"]}
        moved, worst = set(), 0
        for m in cur:
            b = base.get(m[0])
            if b and b[1] in ("block", "fpin"):
                sh = max(abs(m[4] - b[4]), abs(m[5] - b[5])) if m[3] else CLAMP
                if sh > 2:
                    moved.add(b[1]); worst = max(worst, sh)
        f["fixed_moved"] = "+".join(sorted(moved)) or "none"
        f["shift"] = "small" if worst < 20000 else "large"
    if ev["stage"] == "glbfloor" and ev["status"] == "ok":
        before = {m[0]: m for m in prev}
        soft = [m for m in cur if m[1] == "soft" and m[0] in before]
        same = bool(soft) and all(m[3] == 1 and abs(m[4] - before[m[0]][4]) <= 2 and abs(m[5] - before[m[0]][5]) <= 2 for m in soft)
        f["soft_centres"] = "unchanged_from_input" if same else "changed"
    if clause == "alloc_compatible":
        want = {m[0] for m in cur if m[2] > 0}
        got = {s[1] for s in ev["alloc"]["shares"]}
        f["alloc_diff"] = ("both" if want - got and got - want else "missing_modules" if want - got
                           else "extra_modules" if got - want else "none")
    return f


def decide(ctx: Ctx, cases: list[dict]):
    prepare_imports()
    import frame.allocation.allocation  # noqa: F401  (imported in the parent, used only in children)
    import frame.die.die  # noqa: F401
    import tools.netgen.netgen, tools.spectral.spectral, tools.force.force, tools.glbfloor.glbfloor  # noqa: F401,E401
    results = run_cases(run_flow, cases, nproc=16, case_timeout=240)
    traces, meta = {}, {}
    stats = {"flows": 0, "completed": 0, "no_solution": {}, "stages_run": 0}
    for c, (st, t) in zip(cases, results):
        if st != "ok":
            ctx.violation("stage_runs_on_handed_documents", {"case": {k: c[k] for k in ("flow", "edit", "die", "params", "seed")}},
                          {"status": st}, {"clause": "stage_runs_on_handed_documents", "stage": "?", "edit": c["edit"],
                                           "status": "worker_" + st, "exception": "", "user_parts": "?"})
            continue
        stats["flows"] += 1
        for ev in t["events"]:
            if ev["stage"] not in ("netgen", "user"):
                ctx.count()
                stats["stages_run"] += 1
            if ev["status"] == "nosolution":
                stats["no_solution"][ev["stage"]] = stats["no_solution"].get(ev["stage"], 0) + 1
        last = t["events"][-1]
        if last["stage"] == "glbfloor" and last["status"] == "ok" and last["accepted"]:
            stats["completed"] += 1
        key = digest([t, c["seed"]])
        t["id"] = key
        traces[key] = t
        meta[key] = c
    verdicts = tlc.validate_traces(ctx, "PipelineTrace", "PipelineTrace", list(traces.values()), chunk=400)
    for key, v in verdicts.items():
        t, c = traces[key], meta[key]
        ctx.count(key, nontrivial=len(t["events"]) >= 3, n=0)
        ctx.extra["modules_judged_centre_of_mass"] = ctx.extra.get("modules_judged_centre_of_mass", 0) + v.get("judged", 0)
        for (l, clause) in v["fails"]:
            ev = t["events"][l - 1]
            detail = {"stage": ev["stage"], "status": ev["status"], "note": ev.get("note", "")}
            if ev["status"] == "ok":
                detail["written_netlist"] = ev["net"]["mods"]
                if l >= 2:
                    detail["read_netlist"] = t["events"][l - 2]["net"]["mods"]
                if clause in ("centre_is_centre_of_mass", "alloc_compatible", "cells_in_die", "cells_disjoint", "ratios_in_range"):
                    detail["allocation"] = ev["alloc"]
                    detail["centre_fields_in_file"] = ev["raw"]
            ctx.violation(clause, {"case": {k: c[k] for k in ("flow", "edit", "die", "params", "seed")}}, detail, _features(t, ev, clause))
        for (l, what) in v["drift"]:
            ctx.model_drift(f"{t['events'][l - 1]['stage']}: {what}")
    for k in ("flows", "completed", "stages_run"):
        ctx.extra[k if k != "completed" else "flows_completed_through_glbfloor"] = ctx.extra.get(k, 0) + stats[k]
    ctx.extra["no_solution"] = stats["no_solution"]
    for t in list(traces.values())[:3]:
        ctx.sample({"flow": t["flow"], "edit": t["edit"], "die": t["die"], "params": t["params"],
                    "stages": [[e["stage"], e["status"], e["accepted"], len(e["net"]["mods"])] for e in t["events"]],
                    "last_netlist": t["events"][-1]["net"]["mods"][:4]})


def _model_check(ctx: Ctx, spec: str, cfg: str, ignore=()):
    """tlc.model_check with the vacuity test on the FINAL coverage report (TLC also prints interim reports every
    minute, in which late actions still have count 0)."""
    res = tlc.run_tlc(ctx, spec, cfg, coverage=True, tag="mc")
    ctx.states += res["distinct"]
    ctx.transitions += res["generated"]
    last = {}
    for name, cnt, _d in res.get("coverage", []):
        last[name] = cnt
    zero = sorted(n for n, c in last.items() if c == 0 and n != "Init" and n not in ignore)
    if zero or not last:
        raise MachineryError(f"vacuous model: actions never taken in {spec}/{cfg}: {zero}")
    return res


def run(ctx: Ctx) -> int:
    root = ctx.path("flows")
    if ctx.replay:
        rec = json.load(open(ctx.replay))
        c = dict(rec["case"]["case"], dir=os.path.join(root, "replay"))
        decide(ctx, [c])
        return ctx.finish("model_checking", "replay of one recorded flow")
    tier = ctx.tier
    _model_check(ctx, "Pipeline", f"Pipeline_mc_{tier}", ignore=("Emit",))
    gen = tlc.generate(ctx, "Pipeline", f"Pipeline_gen_{tier}")
    if not gen:
        raise MachineryError("TLC generated no flows")
    gen.sort(key=lambda g: json.dumps(g, sort_keys=True))
    cases = [make_case(g, i, ctx.seed, root) for i, g in enumerate(gen)]
    decide(ctx, cases)
    ctx.extra["flows_from_tlc"] = len(cases)
    ctx.extra["not_executed"] = ["frame rect and frame legalfloor: tools/rect/rect.py loads a Windows DLL (GreedyManager) and cannot "
                                 "run on Linux; the flow is stopped after glbfloor (RectPre is still judged on what glbfloor wrote)"]
    ctx.assumptions += [
        "stages are run in one process through their main(prog, args) entry points on files, with Rectangle's process-wide "
        "tolerances reset and the random generator seeded before every stage (all.py runs them as separate processes)",
        "the user's part of the input netlist is one of: nothing, a fixed pin on the left border, a fixed block in the upper-right "
        "corner, both, a movable pin (terminal without `fixed`, as the FloorSet converter writes pins)",
        "`fixed: true` modules (blocks, fixed pins) must not move; movable pins are movable modules (they must end inside the die)",
        "lengths pulled back to 1e-6 of the larger die side, areas and weights to 1/1000; centre = centre of mass judged to 3 % of the "
        "larger die side (glbfloor drops shares below 1 - threshold from the written allocation; solver tolerance 1e-3)",
        "GEKKO 'solution not found' in force / glbfloor ends the flow and is counted, not reported",
    ]
    return ctx.finish(
        "model_checking",
        "one evaluation = one execution of a real stage entry point (spectral, force, glbfloor) on the files written by the "
        "previous stage; distinct = distinct observed flows judged by TLC; non-trivial = the flow reached at least spectral",
        explanation="System-level engine, not one of the 20 properties: it checks the hand-off contract between the stages of "
                    "tools/all/all.py. rect and legalfloor are not executed on this platform.",
        exhaustive=False)
