"""C01 -- Die decomposition is an exact tiling of the die.

TLC (Die/DieMC) enumerates every description of the bounded universes (valid and invalid), model-checks the greedy
cover (accept <=> valid; accepted => exact tiling) and emits the descriptions; each is built as a real
frame.die.Die (with an attached Netlist for fixed rectangles) under seven float embeddings; the verdict and the
four reported lists are pulled back to the lattice and judged by TLC (DieTrace: abstract Decompose action whose
post-condition is exactly the statement).  Random larger descriptions (guillotine layouts, holes, T-junctions,
border contact, one injected defect) follow the same path.
"""
from __future__ import annotations

import json
import random

from ..core import Ctx, digest
from ..forkpool import prepare_imports, run_cases
from ..lattice import ORIGIN0 as _O0

# seven origin-0 embeddings plus two magnitudes: 1e-6 and 1e9 units (absolute tolerances and slacks show there)
ORIGIN0 = _O0 + ["micro", "huge", "mega"]
from .. import tlc
from .die_common import metric_regs, die_size, run_die_case, random_description

MC = {"quick": ["Die_mc_quick"], "thorough": ["Die_mc_quick", "Die_mc_in3", "Die_mc_sliver", "Die_mc_thin"]}
# Die_gen_thin: regions overlapping by a strip 1/30000 of the die wide -- far above the coordinate tolerance but, under the
# small-magnitude embedding, below the area tolerance of Rectangle.overlap(); such descriptions must still be rejected
GEN = {"quick": ["Die_gen_a", "Die_gen_thin"], "thorough": ["Die_gen_a", "Die_gen_in3", "Die_gen_sliver", "Die_gen_thin"]}


def to_case(c, embs=ORIGIN0, ops=()):
    if "xs" not in c:
        c = dict(c)
        c["xs"] = [32 * i for i in range(c["dw"] + 4)]
        c["ys"] = [32 * i for i in range(c["dh"] + 4)]
    mregs = metric_regs(c)
    # a description is a SET of distinct tagged rectangles
    seen, uniq = set(), []
    for t in mregs:
        if tuple(t) not in seen:
            seen.add(tuple(t)); uniq.append(t)
    mdw, mdh = die_size(c)
    return {"mregs": uniq, "mdw": mdw, "mdh": mdh, "embs": list(embs), "ops": list(ops), "valid_hint": c.get("valid")}


def interesting(c) -> bool:
    """valid, or invalid in a 'near' way (overlap / excursion of exactly one lattice step)"""
    return c["valid"] == 1


def decide(ctx: Ctx, cases: list[dict], spec_events=None):
    prepare_imports()
    import frame.die.die  # noqa: F401
    import frame.netlist.netlist  # noqa: F401
    results = run_cases(run_die_case, cases, nproc=16)
    traces, owners = {}, {}
    for c, (st, val) in zip(cases, results):
        if st != "ok":
            ctx.violation("no_result", {"case": c}, {"status": st})
            continue
        for en, evs in val.items():
            ctx.count()
            if isinstance(evs, dict):
                ctx.violation("off_lattice", {"case": c, "embedding": en}, evs, {"embedding": en})
                continue
            # TLC integers are 32-bit: a result whose regions add up to more than twice the die (only a wrong result can)
            # would overflow the area sums of DieTrace.  Such an observation is reported here and not sent to TLC.
            die_area = c["mdw"] * c["mdh"]
            too_big = None
            for e in evs:
                tot = sum((t[2] - t[0]) * (t[3] - t[1]) for k in ("ground", "spec", "block", "fixed", "refinable") for t in e.get(k, []))
                if tot > 2 * die_area + 16 or tot > 2 ** 31 - 1:
                    too_big = (e, tot)
                    break
            if too_big:
                e, tot = too_big
                ctx.violation("regions_exceed_die", {"dw": c["mdw"], "dh": c["mdh"], "regs": c["mregs"], "ops": c["ops"],
                                                     "event": evs.index(e) + 1, "embeddings": [en]},
                              {"total_area_of_reported_regions": tot, "die_area": die_area, "op": e.get("op")},
                              {"clause": "regions_exceed_die", "op": e.get("op")})
                continue
            clean = []
            for e in evs:
                e = {k: v for k, v in e.items() if k not in ("why", "odd_exception", "n_refinable", "n_fixed")}
                clean.append(e)
            t = {"dw": c["mdw"], "dh": c["mdh"], "regs": c["mregs"], "events": clean}
            key = digest(t)
            if key not in traces:
                t["id"] = key
                traces[key] = t
                owners[key] = {"embs": [], "why": [e.get("why") for e in evs if e.get("why")]}
            owners[key]["embs"].append(en)
    verdicts = tlc.validate_traces(ctx, "DieTrace", "DieTrace", list(traces.values()), chunk=3000)
    for key, v in verdicts.items():
        t = traces[key]
        acc = t["events"][0]["verdict"] == "accept"
        ctx.count(key, nontrivial=(acc and len(t["events"][0]["ground"]) >= 2) or (not acc), n=0)
        for (l, clause) in v["fails"]:
            ev = t["events"][l - 1]
            feats = {"clause": clause, "exact": all(e in ("int", "flt", "half", "big") for e in owners[key]["embs"]),
                     "verdict": t["events"][0]["verdict"], "op": ev["op"]}
            if ev["op"] == "split":
                feats["r_lt_2"] = ev["p"] < 2 * ev["q"]
            ctx.violation(clause, {"dw": t["dw"], "dh": t["dh"], "regs": t["regs"],
                                   "ops": [e for e in t["events"][1:]], "event": l, "embeddings": owners[key]["embs"]},
                          {"observed": ev, "why": owners[key]["why"]}, feats)
        for (l, what) in v["drift"]:
            ctx.model_drift(what)
    for t in list(traces.values())[:2]:
        ctx.sample({"trace": t, "embeddings": owners[t["id"]]["embs"]})
    return traces, verdicts


def thin(c) -> bool:
    return c["xs"][1] >= 10000


def select(ctx: Ctx, cases: list[dict], n_invalid: int) -> list[dict]:
    """quick tier: every valid description and every thin-overlap description, plus a seeded sample of the other invalid ones"""
    rng = random.Random(ctx.seed * 7919 + 1)
    valid = [c for c in cases if c["valid"] == 1 or thin(c)]
    invalid = [c for c in cases if c["valid"] == 0 and not thin(c)]
    rng.shuffle(invalid)
    return valid + invalid[:n_invalid]


def run(ctx: Ctx) -> int:
    if ctx.replay:
        rec = json.load(open(ctx.replay))["case"]
        case = {"mregs": rec["regs"], "mdw": rec["dw"], "mdh": rec["dh"], "embs": rec.get("embeddings", ORIGIN0), "ops": []}
        decide(ctx, [case])
        return ctx.finish("model_checking", "replay of one recorded case")
    tier = ctx.tier
    for cfg in MC[tier]:
        tlc.model_check(ctx, "DieMC", cfg, vacuity_ignore=("Emit", "SplitStart", "SplitStep", "SplitEnd", "Grid"))
    gen = []
    for cfg in GEN[tier]:
        gen += tlc.generate(ctx, "DieMC", cfg)
    ctx.extra["descriptions_enumerated_by_tlc"] = len(gen)
    ctx.extra["valid_descriptions_enumerated"] = sum(1 for c in gen if c["valid"] == 1)
    picked = select(ctx, gen, 2500 if tier == "quick" else 60000)
    cases = [to_case(c) for c in picked]
    rng = random.Random(ctx.seed * 1000003 + 1)
    cases += [to_case(random_description(rng)) for _ in range(400 if tier == "quick" else 5000)]
    ctx.extra["descriptions_replayed"] = len(cases)
    decide(ctx, cases)
    ctx.extra["embeddings"] = ORIGIN0
    ctx.assumptions += [
        "float dimension sampled by 7 origin-0 embeddings (steps 1, 1.0, 1/2, 1/10, 1/3, 1e3, 1e-3)",
        "each fixed rectangle belongs to its own fixed module of the attached netlist",
        "quick tier replays every valid enumerated description and a seeded sample of the invalid ones",
    ]
    return ctx.finish(
        "model_checking",
        "TLC enumerates all sets of <=2 tagged regions on a 3x3 die incl. regions leaving the die (thorough: also <=3 regions "
        "inside, sliver/1000:1 metrics); evaluation = one Die() construction per (description, embedding); distinct = distinct "
        "pulled-back behaviours judged by TLC; non-trivial = rejected, or accepted with >= 2 ground regions",
        exhaustive=False)
