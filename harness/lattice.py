"""Embeddings of the integer lattice the TLA+ specs live on into Python numbers, and the pull-back.

An embedding maps lattice coordinate q (integer, or k/2 for centres) to `off + step*q`, computed exactly
with Fractions and rounded ONCE to the nearest double -- which is what a YAML decimal literal gives.
`back*` invert the map; a value that is not within TOL of the lattice raises OffLattice (the caller
reports clause `off_lattice`: every specified operation maps lattice inputs to lattice outputs).
"""
from __future__ import annotations

from fractions import Fraction as F

TOL = 1e-6  # lattice units


class OffLattice(Exception):
    pass


class Emb:
    def __init__(self, name: str, step, off=0, as_int: bool = False):
        self.name, self.step, self.off, self.as_int = name, F(step), F(off), as_int

    def _num(self, fr: F):
        if self.as_int and fr.denominator == 1:
            return int(fr)
        return float(fr)

    # forward -----------------------------------------------------------------
    def coord(self, q) -> float:
        return self._num(self.off + self.step * F(q))

    def length(self, q) -> float:
        return self._num(self.step * F(q))

    def area(self, q) -> float:
        return self._num(self.step * self.step * F(q))

    def rect(self, r) -> list:
        """lattice [x1,y1,x2,y2] -> [cx, cy, w, h] (FRAME's YAML order)"""
        x1, y1, x2, y2 = r[:4]
        return [self.coord(F(x1 + x2, 2)), self.coord(F(y1 + y2, 2)), self.length(x2 - x1), self.length(y2 - y1)]

    # backward ----------------------------------------------------------------
    def _snap(self, q: float, sub: int, what: str) -> int:
        k = round(q * sub)
        if abs(q * sub - k) > TOL * sub:
            raise OffLattice(f"{what}: {q!r} not on 1/{sub} lattice ({self.name})")
        return k

    def back_coord(self, v: float, sub: int = 1) -> int:
        """value -> integer number of (1/sub) lattice units"""
        return self._snap((float(v) - float(self.off)) / float(self.step), sub, "coord")

    def back_length(self, v: float, sub: int = 1) -> int:
        return self._snap(float(v) / float(self.step), sub, "length")

    def back_area_f(self, v: float) -> float:
        return float(v) / float(self.step) ** 2

    def back_rect(self, cx, cy, w, h, sub: int = 1) -> list[int]:
        """centre/size -> lattice [x1,y1,x2,y2] in 1/sub units (each edge snapped independently)"""
        s = float(self.step)
        o = float(self.off)
        x1 = self._snap((cx - w / 2 - o) / s, sub, "x1")
        x2 = self._snap((cx + w / 2 - o) / s, sub, "x2")
        y1 = self._snap((cy - h / 2 - o) / s, sub, "y1")
        y2 = self._snap((cy + h / 2 - o) / s, sub, "y2")
        return [x1, y1, x2, y2]

    def back_rectangle(self, r, sub: int = 1) -> list[int]:
        return self.back_rect(r.center.x, r.center.y, r.shape.w, r.shape.h, sub)


EMBEDDINGS = {
    "int": Emb("int", 1, 0, as_int=True),
    "flt": Emb("flt", 1),
    "half": Emb("half", F(1, 2)),
    "dec": Emb("dec", F(1, 10)),
    "third": Emb("third", F(1, 3)),
    "big": Emb("big", 1000),
    "tiny": Emb("tiny", F(1, 1000)),
    "off": Emb("off", F(1, 10), F(373, 10)),
    # opt-in magnitudes (used where a check says so): FRAME's AREA tolerance is sqrt(distance tolerance), which does not
    # scale like an area -- at 1e-6 units it exceeds the area of a lattice cell, at 1e9 units absolute slacks become visible
    "micro": Emb("micro", F(1, 10 ** 6)),
    "huge": Emb("huge", 10 ** 9),
    # large AND not representable in binary (e.g. a 4 cm die in 0.1 nm steps): the rounding of a coordinate (one ulp of ~1e7)
    # times the length of a rectangle side is an area far above sqrt(distance tolerance)
    "mega": Emb("mega", F(12345678, 10)),
}
ORIGIN0 = ["int", "flt", "half", "dec", "third", "big", "tiny"]
ALL = ORIGIN0 + ["off"]
EXACT = {"int", "flt", "half", "big", "huge"}  # every coordinate is a dyadic rational: float arithmetic on them is exact
