"""bin/check dispatcher."""
import importlib
import sys

from .core import main_wrapper


def main(argv):
    if not argv:
        print("usage: check <ID> [--tier quick|thorough] [--replay PATH]", file=sys.stderr)
        return 2
    pid = argv[0].upper()
    try:
        mod = importlib.import_module(f"harness.drivers.{pid.lower()}")
    except ModuleNotFoundError as e:
        print(f"MACHINERY-ERROR property={pid} no driver ({e})")
        return 2
    return main_wrapper(mod.run, pid, argv[1:])


if __name__ == "__main__":
    sys.exit(main(sys.argv[1:]))
