"""Running TLC (model checking, behaviour generation, batch trace validation) and parsing its output."""
from __future__ import annotations

import json
import os
import re
import subprocess
import time

from .core import Ctx, MachineryError, SPECS

JAVA_CP = "/opt/veriftools/tla/tla2tools.jar:/opt/veriftools/tla/CommunityModules-deps.jar"
_RE_STATES = re.compile(r"(\d+) states generated, (\d+) distinct states found")
_RE_COV = re.compile(r"^<(\w+) line (\d+), col \d+ to line \d+, col \d+ of module (\w+)>: (\d+):(\d+)")


def _parse_printed(stdout: str) -> list:
    """PrintT(ToJson(v)) lines: a TLA+ string literal holding a JSON document."""
    out = []
    for line in stdout.splitlines():
        line = line.strip()
        if len(line) >= 2 and line[0] == '"' and line[-1] == '"' and line[1] in "{[":
            try:
                out.append(json.loads(json.loads(line)))
            except Exception:
                raise MachineryError(f"unparsable PrintT line from TLC: {line[:200]}")
    return out


def run_tlc(ctx: Ctx, spec: str, cfg: str, *, workers: int | str | None = None, env: dict | None = None,
            simulate: str | None = None, depth: int | None = None, timeout: int = 3000,
            coverage: bool = False, heap: str = "8g", expect_ok: bool = True, tag: str = "") -> dict:
    """Run TLC on specs/<spec>.tla with specs/<cfg>.cfg.  Returns stdout, counts and printed JSON values."""
    if workers is None:
        workers = os.environ.get("VERIF_TLC_WORKERS", "16")
    meta = ctx.path(f"meta-{len(ctx.tlc_runs)}-{os.getpid()}")
    cmd = ["java", "-XX:+UseParallelGC", f"-Xmx{heap}", "-cp", JAVA_CP, "tlc2.TLC",
           "-workers", str(workers), "-metadir", meta, "-noGenerateSpecTE", "-config", f"{cfg}.cfg"]
    if coverage:
        cmd += ["-coverage", "1"]
    if simulate:
        cmd += ["-simulate", simulate]
    if depth is not None:
        cmd += ["-depth", str(depth)]
    cmd.append(f"{spec}.tla")
    e = dict(os.environ)
    os.makedirs(ctx.work, exist_ok=True)
    e["TMPDIR"] = ctx.work
    e["JAVA_TOOL_OPTIONS"] = f"-Djava.io.tmpdir={ctx.work}"
    if env:
        e.update({k: str(v) for k, v in env.items()})
    t0 = time.time()
    try:
        p = subprocess.run(cmd, cwd=SPECS, env=e, capture_output=True, text=True, timeout=timeout)
    except subprocess.TimeoutExpired:
        raise MachineryError(f"TLC timed out after {timeout}s on {spec}/{cfg}")
    wall = time.time() - t0
    out = p.stdout
    m = None
    for m in _RE_STATES.finditer(out):
        pass
    gen, dist = (int(m.group(1)), int(m.group(2))) if m else (0, 0)
    ok = "Model checking completed. No error has been found." in out or (simulate is not None and p.returncode == 0)
    res = {"spec": spec, "cfg": cfg, "generated": gen, "distinct": dist, "ok": ok, "rc": p.returncode,
           "wall_s": round(wall, 1), "stdout": out, "stderr": p.stderr}
    if expect_ok and not ok:
        lines = out.splitlines()
        first = next((i for i, l in enumerate(lines) if l.startswith("Error:") or "Exception" in l), None)
        head = "\n".join(lines[first:first + 12]) + "\n...\n" if first is not None else ""
        tail = head + "\n".join(lines[-25:])
        raise MachineryError(f"TLC did not complete cleanly on {spec}/{cfg} (rc={p.returncode}):\n{tail}\n{p.stderr[-500:]}")
    res["printed"] = _parse_printed(out)
    if coverage:
        res["coverage"] = [(mm.group(1), int(mm.group(4)), int(mm.group(5)))
                           for mm in (_RE_COV.match(l.strip()) for l in out.splitlines()) if mm]
    ctx.tlc_runs.append({"spec": spec, "cfg": cfg, "tag": tag, "generated": gen, "distinct": dist,
                         "wall_s": round(wall, 1), "simulate": simulate})
    return res


def model_check(ctx: Ctx, spec: str, cfg: str, vacuity_ignore=(), **kw) -> dict:
    """Exhaustive TLC run whose invariants/properties must hold (a failure here is a *spec* problem =
    machinery error: the design model itself must satisfy the property)."""
    kw.setdefault("coverage", True)
    res = run_tlc(ctx, spec, cfg, tag="mc", **kw)
    ctx.states += res["distinct"]
    ctx.transitions += res["generated"]
    # vacuity: every action of the spec's Next must have been taken at least once
    # with -coverage 1 TLC also prints an interim dump every minute, in which actions deeper than the current BFS level
    # still show 0: only the LAST count printed for an action is its final one
    last = {}
    for (name, cnt, _d) in res.get("coverage", []):
        last[name] = cnt
    zero = [name for name, cnt in last.items() if cnt == 0 and name not in ("Init",) and name not in vacuity_ignore]
    if zero:
        raise MachineryError(f"vacuous model: actions never taken in {spec}/{cfg}: {sorted(set(zero))}")
    return res


def generate(ctx: Ctx, spec: str, cfg: str, **kw) -> list:
    """TLC run that prints cases (PrintT(ToJson(..))) from terminal actions; returns the parsed cases."""
    res = run_tlc(ctx, spec, cfg, tag="gen", **kw)
    ctx.states += res["distinct"]
    ctx.transitions += res["generated"]
    return res["printed"]


def validate_traces(ctx: Ctx, spec: str, cfg: str, traces: list[dict], *, chunk: int = 4000, workers: int | None = None,
                    timeout: int = 3000, env: dict | None = None) -> dict:
    """Batch trace validation.  Every trace is a JSON object with a unique string `id`.  The trace spec must
    print exactly one record {"tag":"VERDICT","id":..,"fails":[..],"drift":[..]} per trace.
    Returns id -> verdict record.  Anything else is a machinery error."""
    verdicts: dict[str, dict] = {}
    ids = [t["id"] for t in traces]
    if len(set(ids)) != len(ids):
        raise MachineryError("duplicate trace ids")
    for i in range(0, len(traces), chunk):
        part = traces[i:i + chunk]
        f = ctx.path(f"batch-{spec}-{i}-{os.getpid()}.json")
        with open(f, "w") as fh:
            json.dump(part, fh, separators=(",", ":"))
        e = {"TRACE_FILE": f}
        if env:
            e.update(env)
        res = run_tlc(ctx, spec, cfg, env=e, workers=workers, timeout=timeout, tag="trace")
        ctx.states += res["distinct"]
        ctx.transitions += res["generated"]
        got = [r for r in res["printed"] if isinstance(r, dict) and r.get("tag") == "VERDICT"]
        for r in got:
            if r["id"] in verdicts:
                raise MachineryError(f"two verdicts for trace {r['id']}")
            verdicts[r["id"]] = r
        missing = [t["id"] for t in part if t["id"] not in verdicts]
        if missing:
            tail = "\n".join(res["stdout"].splitlines()[-30:])
            raise MachineryError(f"{len(missing)} trace(s) without verdict from {spec} (first: {missing[0]}):\n{tail}")
        os.remove(f)
    ctx.traces_validated += len(traces)
    return verdicts
