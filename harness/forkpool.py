"""Run cases against the real code in forked worker processes.

The parent imports FRAME once and never *uses* it, so every forked child starts from a pristine
process state.  `fresh=True` forks a new child for every single case (needed when the subject is
process-wide state: pseudobool's diagram store, Rectangle's tolerances); otherwise each of the
`nproc` workers handles a slice of the cases and the driver resets the documented state itself
(`Rectangle.undefine_epsilon()`).
"""
from __future__ import annotations

import os
import pickle
import signal
import struct
import sys
import traceback

from .core import REPO, MachineryError


def prepare_imports():
    """Import FRAME in the parent so that children do not pay for it."""
    if REPO not in sys.path:
        sys.path.insert(0, REPO)
    os.environ.setdefault("MPLBACKEND", "Agg")
    os.environ.setdefault("PYTHONHASHSEED", "0")


class CaseTimeout(Exception):
    pass


def _alarm(_s, _f):
    raise CaseTimeout()


def _run_one(func, case, case_timeout):
    signal.signal(signal.SIGALRM, _alarm)
    signal.alarm(case_timeout)
    try:
        return ("ok", func(case))
    except CaseTimeout:
        return ("timeout", None)
    except BaseException as e:  # harness bug inside the child: report, do not accuse the code
        return ("harness_error", f"{type(e).__name__}: {e}\n{traceback.format_exc()[-1500:]}")
    finally:
        signal.alarm(0)


def _write_all(fd, data: bytes):
    mv = memoryview(data)
    while mv:
        n = os.write(fd, mv)
        mv = mv[n:]


def _read_exact(fd, n):
    buf = bytearray()
    while len(buf) < n:
        b = os.read(fd, min(1 << 20, n - len(buf)))
        if not b:
            raise EOFError
        buf += b
    return bytes(buf)


def _fresh_child(func, case, case_timeout):
    r, w = os.pipe()
    pid = os.fork()
    if pid == 0:
        os.close(r)
        try:
            res = _run_one(func, case, case_timeout)
            data = pickle.dumps(res)
        except BaseException as e:
            data = pickle.dumps(("harness_error", f"unpicklable result: {e}"))
        _write_all(w, struct.pack("<Q", len(data)) + data)
        os._exit(0)
    os.close(w)
    try:
        n = struct.unpack("<Q", _read_exact(r, 8))[0]
        res = pickle.loads(_read_exact(r, n))
    except EOFError:
        res = ("crash", None)
    os.close(r)
    os.waitpid(pid, 0)
    return res


def _ensure_scratch():
    """the scratch directory (TMPDIR) of the running check must exist whatever another process did to .work/ meanwhile"""
    d = os.environ.get("TMPDIR")
    if d:
        try:
            os.makedirs(d, exist_ok=True)
        except OSError:
            pass


def _worker(func, cases, idxs, fresh, case_timeout, wfd):
    out = []
    for i in idxs:
        _ensure_scratch()
        if fresh:
            out.append((i, _fresh_child(func, cases[i], case_timeout)))
        else:
            out.append((i, _run_one(func, cases[i], case_timeout)))
    data = pickle.dumps(out)
    _write_all(wfd, struct.pack("<Q", len(data)) + data)
    os._exit(0)


def run_cases(func, cases: list, *, nproc: int = 16, fresh: bool = False, case_timeout: int = 120) -> list:
    """Apply func(case) to every case in forked workers.  Returns a list aligned with `cases` of
    (status, value) with status in ok | timeout | crash | harness_error."""
    if not cases:
        return []
    nproc = max(1, min(nproc, len(cases)))
    sys.stdout.flush()
    sys.stderr.flush()
    kids = []
    for k in range(nproc):
        idxs = list(range(k, len(cases), nproc))
        r, w = os.pipe()
        pid = os.fork()
        if pid == 0:
            os.close(r)
            try:
                _worker(func, cases, idxs, fresh, case_timeout, w)
            finally:
                os._exit(1)
        os.close(w)
        kids.append((pid, r, idxs))
    results: list = [("crash", None)] * len(cases)
    for pid, r, idxs in kids:
        try:
            n = struct.unpack("<Q", _read_exact(r, 8))[0]
            for i, res in pickle.loads(_read_exact(r, n)):
                results[i] = res
        except EOFError:
            # the whole worker died (hard crash in native code): redo its slice one fresh child per case
            for i in idxs:
                results[i] = _fresh_child(func, cases[i], case_timeout)
        os.close(r)
        os.waitpid(pid, 0)
    bad = [(i, v) for i, (s, v) in enumerate(results) if s == "harness_error"]
    if bad:
        raise MachineryError(f"harness error while running case {bad[0][0]}: {bad[0][1]}")
    return results
