"""Shared run context for every property check.

One `Ctx` per invocation of `bin/check <ID>`.  It owns the scratch directory (also TMPDIR, so
GEKKO/TLC droppings are removed with it), the TLC runs, the violation / known-finding bookkeeping,
the replay files and the evidence file.  Exit codes: 0 = held on everything explored,
1 = VIOLATION, 2 = machinery error (never an accusation of the code under test).
"""
from __future__ import annotations

import atexit
import hashlib
import json
import os
import shutil
import sys
import time
import traceback

VERIF = os.path.dirname(os.path.dirname(os.path.abspath(__file__)))
REPO = os.environ.get("VERIF_REPO", "/repo")
SPECS = os.path.join(VERIF, "specs")
LEVELS = ("exploration", "fault_enumeration", "model_checking", "proof", "translation_validation", "other")


class MachineryError(Exception):
    """Something in the verification machinery itself went wrong (exit 2)."""


def canon(obj) -> str:
    return json.dumps(obj, sort_keys=True, separators=(",", ":"), default=str)


def digest(obj) -> str:
    return hashlib.sha1(canon(obj).encode()).hexdigest()[:16]


class Ctx:
    def __init__(self, pid: str, tier: str, seed: int, replay: str | None = None):
        self.pid = pid
        self.tier = tier
        self.seed = seed
        self.replay = replay
        self.t0 = time.time()
        self.work = os.path.join(VERIF, ".work", f"{pid}-{tier}-{os.getpid()}")
        os.makedirs(self.work, exist_ok=True)
        os.environ["TMPDIR"] = self.work
        import tempfile
        tempfile.tempdir = self.work
        self._owner = os.getpid()
        atexit.register(self._cleanup)
        # bookkeeping
        self.states = 0
        self.transitions = 0
        self.tlc_runs: list[dict] = []
        self.traces_validated = 0
        self.evaluations = 0
        self.nontrivial: set[str] = set()
        self.samples: list = []
        self.violations: list[dict] = []
        self.known_hits: dict[str, int] = {}
        self.drift: dict[str, int] = {}
        self.extra: dict = {}
        self.assumptions: list[str] = []
        self._known = self._load_known()

    # ------------------------------------------------------------------ scratch
    def _cleanup(self):
        # forked children inherit the atexit handler: only the process that owns the scratch directory removes it
        # (a helper child leaving through sys.exit() once removed it under its running parent: FileNotFoundError in mkdtemp)
        if os.getpid() == self._owner:
            shutil.rmtree(self.work, ignore_errors=True)

    def path(self, name: str) -> str:
        return os.path.join(self.work, name)

    # ------------------------------------------------------------------ known findings
    def _load_known(self) -> list[dict]:
        p = os.path.join(VERIF, "known_findings.json")
        if not os.path.exists(p):
            return []
        with open(p) as f:
            data = json.load(f)
        return [e for e in data.get("findings", []) if e.get("property") == self.pid and e.get("status") == "known"]

    def _match_known(self, clause: str, features: dict) -> dict | None:
        for e in self._known:
            if e.get("clause") not in (None, clause):
                continue
            m = e.get("match", {})
            if all(features.get(k) == v for k, v in m.items()):
                return e
        return None

    # ------------------------------------------------------------------ reporting
    def violation(self, clause: str, case, detail=None, features: dict | None = None):
        """Record that property clause `clause` is false on an observation of the real code."""
        features = features or {}
        k = self._match_known(clause, features)
        if k is not None:
            self.known_hits[k["id"]] = self.known_hits.get(k["id"], 0) + 1
            return
        self.violations.append({"clause": clause, "case": case, "detail": detail, "features": features})

    def model_drift(self, what: str, n: int = 1):
        self.drift[what] = self.drift.get(what, 0) + n

    def sample(self, obj, limit: int = 6):
        if len(self.samples) < limit:
            self.samples.append(obj)

    def count(self, key: str | None = None, nontrivial: bool = False, n: int = 1):
        self.evaluations += n
        if nontrivial and key is not None:
            self.nontrivial.add(key)

    # ------------------------------------------------------------------ finish
    def finish(self, level: str, rule: str, explanation: str = "", exhaustive: bool | None = None) -> int:
        assert level in LEVELS
        wall = time.time() - self.t0
        for fid, n in sorted(self.known_hits.items()):
            e = next(x for x in self._known if x["id"] == fid)
            print(f"KNOWN-FINDING: property={self.pid} {e['what']} [{fid}; {n} case(s) this run]")
        rc = 0
        replay_paths = []
        if self.violations:
            rc = 1
            rdir = os.path.join(VERIF, "replays", self.pid)
            os.makedirs(rdir, exist_ok=True)
            seen = set()
            for v in self.violations:
                key = digest([v["clause"], v["case"]])
                if key in seen:
                    continue
                seen.add(key)
                if len(seen) > 25:
                    break
                p = os.path.join(rdir, f"{key}.json")
                with open(p, "w") as f:
                    json.dump({"property": self.pid, "tier": self.tier, "seed": self.seed, **v}, f, indent=1, default=str)
                replay_paths.append(p)
                print(f"VIOLATION property={self.pid} replay={p}")
                print(f"  clause={v['clause']} detail={canon(v['detail'])[:400]}")
            print(f"  ({len(self.violations)} violating observation(s) in total)")
            hist: dict[str, int] = {}
            for v in self.violations:
                k = v["clause"] + " " + canon(v["features"])
                hist[k] = hist.get(k, 0) + 1
            for k, n in sorted(hist.items(), key=lambda kv: -kv[1])[:30]:
                print(f"  summary: {n} x {k}")
        for what, n in sorted(self.drift.items()):
            print(f"MODEL-DRIFT property={self.pid} {what} x{n}")
        cov = {
            "states": self.states,
            "transitions": self.transitions,
            "traces_validated_against_impl": self.traces_validated,
            "evaluations": max(self.evaluations, 0),
            "distinct_nontrivial": len(self.nontrivial),
            "rule": rule,
            "samples": self.samples[:6] or ["(none)"],
            "tlc_runs": self.tlc_runs,
            "model_drift": self.drift,
            "known_findings_hit": self.known_hits,
        }
        if explanation:
            cov["explanation"] = explanation
        if exhaustive is not None:
            cov["exhaustive"] = exhaustive
        cov.update(self.extra)
        ev = {
            "property_id": self.pid,
            "tier": self.tier,
            "seed": self.seed,
            "level": level,
            "coverage": cov,
            "assumptions": self.assumptions,
            "wall_s": round(wall, 2),
            "violations": len(self.violations),
        }
        if not self.replay and not os.environ.get("VERIF_NO_EVIDENCE"):
            os.makedirs(os.path.join(VERIF, "evidence"), exist_ok=True)
            with open(os.path.join(VERIF, "evidence", f"{self.pid}.json"), "w") as f:
                json.dump(ev, f, indent=1, default=str)
        print(f"{self.pid} {self.tier}: states={self.states} transitions={self.transitions} "
              f"traces={self.traces_validated} evaluations={self.evaluations} nontrivial={len(self.nontrivial)} "
              f"violations={len(self.violations)} known={sum(self.known_hits.values())} wall={wall:.1f}s")
        return rc


def main_wrapper(fn, pid: str, argv: list[str]) -> int:
    """Common command line of every driver: [--tier quick|thorough] [--replay PATH]."""
    tier = os.environ.get("VERIF_TIER", "quick")
    replay = None
    i = 0
    while i < len(argv):
        if argv[i] == "--tier":
            tier = argv[i + 1]; i += 2
        elif argv[i] == "--replay":
            replay = argv[i + 1]; i += 2
        else:
            print(f"unknown argument {argv[i]}", file=sys.stderr); return 2
    if tier not in ("quick", "thorough"):
        print(f"bad tier {tier}", file=sys.stderr); return 2
    try:
        seed = int(os.environ.get("VERIF_SEED", "0"))
    except ValueError:
        seed = 0
    ctx = Ctx(pid, tier, seed, replay)
    try:
        return fn(ctx)
    except MachineryError as e:
        print(f"MACHINERY-ERROR property={pid} {e}")
        return 2
    except Exception:
        traceback.print_exc()
        print(f"MACHINERY-ERROR property={pid} unexpected exception in the harness")
        return 2
